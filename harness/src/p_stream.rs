//! Properties decided on engine E2 (`streaming_body`, one thread): C08, C09, C11 (sequential
//! part), C17.

use crate::bodymon::Ev;
use crate::driver::{Ctx, Prop, Sink, Tier, Verdict};
use crate::e2::{case_with_obs, payload, run_stream, Op, Payload, Res, StreamCase, StreamObs};
use crate::model::gz;
use crate::util::{hash64, norm_loc, show, Rng};
use serde_json::{json, Value};
use std::io::Write as _;
use std::sync::Mutex;

pub fn register(v: &mut Vec<Box<dyn Prop>>) {
    v.push(Box::new(C08));
    v.push(Box::new(C09));
    v.push(Box::new(C17));
}

fn thorough(ctx: &Ctx) -> bool {
    ctx.tier == Tier::Thorough
}

pub type Judge = dyn Fn(&StreamCase, &StreamObs, &mut Sink) -> (Verdict, Option<u64>);

pub fn exec(c: &StreamCase, sink: &mut Sink, judge: &Judge) {
    if !sink.admit() {
        return;
    }
    match run_stream(c) {
        None => sink.count("inexpressible_request"),
        Some(o) => {
            if o.poll_limit_hit {
                sink.count("harness_poll_budget_exhausted");
                return;
            }
            sink.add("ops", o.steps.len() as u64);
            sink.add("polls", o.all_polls().count() as u64);
            sink.add("pendings", o.all_polls().filter(|p| p.ev == Ev::Pending).count() as u64);
            sink.add("frames", o.all_polls().filter(|p| matches!(p.ev, Ev::Data(_))).count() as u64);
            sink.add("bytes_accepted", o.accepted.len() as u64);
            sink.add("wakes", o.wakes);
            let (v, nt) = judge(c, &o, sink);
            sink.record(v, nt, &|| case_with_obs(c, &o));
        }
    }
}

pub fn replay(judge: &Judge, case: &Value, sink: &mut Sink) {
    let c = StreamCase::from_json(if case.get("case").is_some() { &case["case"] } else { case });
    if let Some(o) = run_stream(&c) {
        let (v, nt) = judge(&c, &o, sink);
        sink.record(v, nt, &|| case_with_obs(&c, &o));
    }
}

/// Operation alphabet for chunk size `c` (deduplicated).
pub fn alphabet(c: usize) -> Vec<Op> {
    let c = c as u32;
    let mut v = vec![Op::Write(0), Op::Write(1), Op::Write(c.saturating_sub(1)), Op::Write(c), Op::Write(c + 1), Op::Write(2 * c), Op::Write(3 * c), Op::WriteAll(1), Op::WriteAll(c + 1), Op::WriteAll(3 * c), Op::Flush, Op::PollOnce, Op::PollAll];
    let mut out: Vec<Op> = Vec::new();
    for o in v.drain(..) {
        if !out.contains(&o) {
            out.push(o);
        }
    }
    out
}

/// The alphabet plus two `write_vectored` calls (the trait's default forwards the first non-empty
/// slice to `write`; an override must keep "the count returned is a prefix of the concatenation").
pub fn alphabet_v(c: usize) -> Vec<Op> {
    let mut v = alphabet(c);
    let c = c as u32;
    v.push(Op::WriteV(vec![c.saturating_sub(1).max(1), 2, c + 1]));
    v.push(Op::WriteV(vec![0, 1, 3 * c]));
    // formatted writes (`write!` goes through `write_fmt`, which a writer may override): short
    // and long arguments, long ones not in first place
    v.push(Op::WriteFmt(vec![2, 300]));
    v.push(Op::WriteFmt(vec![c, 1, 260, 3]));
    v
}

pub fn seq_from_index(alpha: &[Op], len: usize, mut idx: u64) -> Vec<Op> {
    let k = alpha.len() as u64;
    (0..len)
        .map(|_| {
            let o = alpha[(idx % k) as usize].clone();
            idx /= k;
            o
        })
        .collect()
}

pub fn random_seq(alpha: &[Op], len: usize, rng: &mut Rng) -> Vec<Op> {
    (0..len).map(|_| rng.pick(alpha).clone()).collect()
}

fn op_sig(o: &Op) -> &'static str {
    match o {
        Op::Write(_) => "write",
        Op::WriteAll(_) => "write_all",
        Op::WriteV(_) => "write_vectored",
        Op::WriteFmt(_) => "write_fmt",
        Op::Flush => "flush",
        Op::PollOnce | Op::PollAll => "poll",
        Op::Abort => "abort",
        Op::DropBody => "drop_body",
        Op::DropWriter => "drop_writer",
    }
}

// =================================================================================== C08 ====

pub struct C08;

pub fn c08_judge(c: &StreamCase, o: &StreamObs, sink: &mut Sink) -> (Verdict, Option<u64>) {
    if let Some(p) = &o.build_panic {
        return (Verdict::viol(format!("build-panic@{}", norm_loc(p)), p.clone()), None);
    }
    if o.hdr("content-encoding").is_some() {
        return (Verdict::DontCare("gzip negotiated (C09)".into()), None);
    }
    if !o.writer_returned {
        return (Verdict::DontCare("no writer (HEAD)".into()), None);
    }
    let mut flushed_mark = 0u64;
    let mut writer_dropped = false;
    let mut ended = false;
    for (i, s) in o.steps.iter().enumerate() {
        match (&s.op, &s.res) {
            (_, Res::Panic(p)) => return (Verdict::viol(format!("panic|{}@{}", op_sig(&s.op), norm_loc(p)), format!("step {} {:?} panicked: {}", i, s.op, p)), None),
            (Op::Write(_) | Op::WriteV(_), Res::Write { offered: n, res }) => match res {
                Ok(m) => {
                    if (*n > 0 && (*m == 0 || *m > *n as usize)) || (*n == 0 && *m != 0) {
                        return (Verdict::viol(format!("write-count|{}", if *m == 0 { "zero" } else { "too-many" }), format!("step {}: write of {} bytes returned Ok({})", i, n, m)), None);
                    }
                    if *m < *n as usize {
                        sink.count("partial_writes");
                    }
                }
                Err(e) => return (Verdict::viol("write-error-on-live-body", format!("step {}: write({}) failed with {} although the body is alive", i, n, e)), None),
            },
            (Op::WriteAll(_) | Op::WriteFmt(_), Res::Unit(r)) | (Op::Flush, Res::Unit(r)) if r.is_err() => {
                return (Verdict::viol(format!("{}-error-on-live-body", op_sig(&s.op)), format!("step {}: {:?} ({}) failed with {:?} although the body is alive", i, s.op, n_of(&s.op), r)), None);
            }
            (Op::Flush, Res::Unit(Ok(()))) => {
                flushed_mark = s.accepted;
                sink.count("flushes");
            }
            (Op::DropWriter, _) => writer_dropped = true,
            (Op::PollOnce | Op::PollAll, Res::Polls(polls)) => {
                for p in polls {
                    match &p.ev {
                        Ev::Data(0) => return (Verdict::viol("empty-frame", format!("step {}: empty data frame", i)), None),
                        Ev::Data(_) => {
                            if ended {
                                return (Verdict::DontCare("data after end (C20)".into()), None);
                            }
                        }
                        Ev::End => {
                            if !writer_dropped {
                                return (Verdict::viol("early-end", format!("step {}: body ended while the writer is alive", i)), None);
                            }
                            ended = true;
                        }
                        Ev::Err(e) => return (Verdict::viol("error-without-abort", format!("step {}: body reported error {:?} without an abort", i, e)), None),
                        Ev::Pending => {
                            if writer_dropped {
                                return (Verdict::viol("pending-after-writer-drop", format!("step {}: Pending although the writer is gone", i)), None);
                            }
                        }
                        _ => {}
                    }
                }
                if s.delivered > s.accepted {
                    return (Verdict::viol("delivered-more-than-accepted", format!("step {}: {} bytes delivered, {} accepted", i, s.delivered, s.accepted)), None);
                }
                let settled = s.op == Op::PollAll && polls.last().is_some_and(|p| matches!(p.ev, Ev::Pending | Ev::End));
                if settled && s.delivered < flushed_mark {
                    return (
                        Verdict::viol("flushed-bytes-not-available", format!("step {}: flush returned with {} bytes accepted, consumer polled until {:?} and has only {}", i, flushed_mark, polls.last().map(|p| &p.ev), s.delivered)),
                        None,
                    );
                }
                if settled && flushed_mark > 0 {
                    sink.count("flush_availability_checked");
                }
            }
            _ => {}
        }
    }
    if !o.accepted.starts_with(&o.delivered) {
        let i = o.delivered.iter().zip(o.accepted.iter()).position(|(a, b)| a != b).unwrap_or(o.accepted.len().min(o.delivered.len()));
        return (Verdict::viol("not-a-prefix", format!("delivered bytes differ from accepted bytes at offset {} (delivered {}, accepted {})", i, o.delivered.len(), o.accepted.len())), None);
    }
    if !ended {
        return (Verdict::viol("no-clean-end", "writer dropped and body drained, but no clean end was reported"), None);
    }
    if o.delivered.len() != o.accepted.len() {
        return (Verdict::viol("lost-bytes", format!("{} bytes accepted, {} delivered before the clean end", o.accepted.len(), o.delivered.len())), None);
    }
    let nt = if !o.accepted.is_empty() { Some(hash64(c)) } else { None };
    (Verdict::Ok, nt)
}

fn n_of(o: &Op) -> u32 {
    match o {
        Op::WriteV(ns) | Op::WriteFmt(ns) => ns.iter().sum(),
        Op::Write(n) | Op::WriteAll(n) => *n,
        _ => 0,
    }
}

const SMALL_CHUNKS: [usize; 5] = [1, 2, 3, 4, 7];
const ALL_CHUNKS: [usize; 7] = [1, 2, 3, 4, 7, 4096, 65_536];

struct SeqSpace {
    /// (chunk, len, first symbol index) exhaustive blocks, then (chunk, 0, k) random blocks
    blocks: Vec<(usize, usize, usize)>,
}

fn seq_space(ctx: &Ctx, max_len_q: usize, max_len_t: usize) -> SeqSpace {
    let mut blocks = Vec::new();
    let max_len = if ctx.leg.slow() { 2 } else if thorough(ctx) { max_len_t } else { max_len_q };
    for &c in &SMALL_CHUNKS {
        let a = alphabet_v(c).len();
        for len in 1..=max_len {
            for first in 0..a {
                blocks.push((c, len, first));
            }
        }
    }
    let n_rand = if ctx.leg.slow() { 1 } else { 8 };
    for &c in &ALL_CHUNKS {
        for k in 0..n_rand {
            blocks.push((c, 0, k));
        }
    }
    SeqSpace { blocks }
}

fn run_seq_block(ctx: &Ctx, blk: (usize, usize, usize), tag: u64, sink: &mut Sink, mk: &dyn Fn(usize, Vec<Op>, &mut Rng) -> Vec<StreamCase>, judge: &Judge) {
    let (c, len, first) = blk;
    let alpha = alphabet_v(c);
    let mut rng = Rng::from_parts(ctx.seed, &[tag, c as u64, len as u64, first as u64]);
    if len > 0 {
        let rest = len - 1;
        let n = (alpha.len() as u64).pow(rest as u32);
        for idx in 0..n {
            let mut ops = vec![alpha[first].clone()];
            ops.extend(seq_from_index(&alpha, rest, idx));
            for case in mk(c, ops, &mut rng) {
                exec(&case, sink, judge);
            }
            if sink.stopped() {
                return;
            }
        }
    } else {
        let n = if ctx.leg.slow() { 6 } else if thorough(ctx) { 18_000 } else { 360 };
        for _ in 0..n {
            let l = rng.range(10, if c > 4096 { 40 } else { 200 }) as usize;
            let ops = random_seq(&alpha, l, &mut rng);
            for case in mk(c, ops, &mut rng) {
                exec(&case, sink, judge);
            }
            if sink.stopped() {
                return;
            }
        }
    }
}

/// Thousands of queued chunks, drained completely, then more data (the queue's own storage has
/// grown large by then), identity coding.
pub fn deep_queue_histories() -> Vec<StreamCase> {
    let mut v = Vec::new();
    for (chunk, depth) in [(1usize, 1500u32), (1, 3000), (1, 6000), (2, 3000), (1, 20_000), (3, 9000)] {
        for fresh in [false, true] {
            let c = chunk as u32;
            let mut case = StreamCase::raw(chunk, vec![Op::PollOnce, Op::WriteAll(depth * c), Op::PollAll, Op::WriteAll(c), Op::PollAll, Op::WriteAll(1), Op::Flush, Op::PollAll, Op::WriteAll(depth * c), Op::PollOnce, Op::PollAll, Op::Write(1), Op::Flush, Op::PollOnce]);
            case.fresh_wakers = fresh;
            v.push(case);
        }
    }
    v
}

/// A reader that does not poll for a long run of small write+flush pairs, then drains.
pub fn stalled_reader_ops(pairs: usize, size: u32) -> Vec<Op> {
    let mut ops = Vec::new();
    for _ in 0..pairs {
        ops.push(Op::WriteAll(size));
        ops.push(Op::Flush);
    }
    ops.extend([Op::WriteAll(size), Op::Flush, Op::PollAll, Op::WriteAll(size + 1), Op::Flush, Op::PollAll]);
    ops
}

const STALLS: [(usize, usize, u32); 10] = [(8, 10, 1), (8, 40, 3), (64, 40, 10), (64, 100, 3), (4096, 40, 10), (4096, 100, 7), (4096, 300, 1), (65_536, 100, 10), (65_536, 1000, 5), (1000, 3000, 2)];

/// (chunk size, bytes queued unread before the interesting part)
const BACKLOGS: [(usize, u32); 8] = [(4096, 1 << 20), (4096, 9 << 20), (65_536, 9 << 20), (65_536, 40 << 20), (4096, 33 << 20), (7, 1 << 20), (1000, 17 << 20), (65_536, 1 << 20)];

pub fn c08_n_blocks(ctx: &Ctx) -> usize {
    seq_space(ctx, 4, 5).blocks.len() + if ctx.leg.slow() { 0 } else { BACKLOGS.len() }
}

pub fn c08_block(b: usize, sink: &mut Sink, judge: &Judge) {
    let ctx = sink.ctx.clone();
    let n_seq = seq_space(&ctx, 4, 5).blocks.len();
    if b >= n_seq {
        // a large unread backlog, then small writes and flushes: everything accepted before a flush
        // must still be available once the consumer drains
        let (chunk, backlog) = BACKLOGS[b - n_seq];
        let c = chunk as u32;
        for tail in [1u32, 63, 64, c.saturating_sub(1).max(1), c + 1] {
            for variant in 0..3 {
                let mut ops = vec![Op::WriteAll(backlog)];
                match variant {
                    0 => ops.extend([Op::WriteAll(tail), Op::Flush, Op::PollAll, Op::WriteAll(tail), Op::Flush, Op::PollAll]),
                    1 => ops.extend([Op::Flush, Op::WriteAll(tail), Op::Flush, Op::WriteAll(1), Op::Flush, Op::PollAll]),
                    _ => ops.extend([Op::PollOnce, Op::Write(tail), Op::Flush, Op::PollAll, Op::Write(tail), Op::PollAll]),
                }
                let case = StreamCase::raw(chunk, ops);
                exec(&case, sink, judge);
                sink.count("backlog_histories");
            }
        }
        if b == n_seq {
            for case in deep_queue_histories() {
                exec(&case, sink, judge);
                sink.count("deep_queue_histories");
            }
        }
        if b == n_seq {
            // chunk sizes above the largest of the usual set, filled by equal blocks (the way
            // io::copy or a BufWriter fills them): power-of-two blocks land exactly on every
            // power-of-two fill level of the chunk, odd ones straddle them
            for chunk in [131_072usize, 196_608, 262_144, 1 << 20, 100_000] {
                for block in [4096u32, 8192, 16_384, 65_536, 1000, 65_537] {
                    for variant in 0..3u32 {
                        let mut ops = Vec::new();
                        let n = (5 * chunk as u32 / 2) / block + 2;
                        for k in 0..n {
                            ops.push(if variant == 2 && k % 2 == 1 { Op::WriteAll(block) } else { Op::Write(block) });
                            if variant == 1 && k % 16 == 15 {
                                ops.extend([Op::Flush, Op::PollOnce]);
                            }
                        }
                        ops.extend([Op::Write(1), Op::Flush, Op::PollAll]);
                        let case = StreamCase::raw(chunk, ops);
                        exec(&case, sink, judge);
                        sink.count("large_chunk_block_histories");
                    }
                }
            }
        }
        for (chunk, pairs, size) in STALLS {
            let mut case = StreamCase::raw(chunk, stalled_reader_ops(pairs, size));
            case.fresh_wakers = pairs % 3 == 0;
            exec(&case, sink, judge);
            sink.count("stalled_reader_histories");
        }
        return;
    }
    let blk = seq_space(&ctx, 4, 5).blocks[b];
    run_seq_block(&ctx, blk, 8, sink, &|c, ops, rng| {
        let mut case = StreamCase::raw(c, ops);
        case.via_parts = rng.chance(1, 2);
        case.fresh_wakers = rng.chance(1, 2);
        if rng.chance(1, 4) {
            case.prelude = rng.range(1, 5) as u8;
        }
        case.builder_detour = rng.below(4) as u8;
        case.noise = rng.below(6) as u8;
        case.version = if rng.chance(1, 3) { rng.range(1, 4) as u8 } else { 0 };
        match rng.below(8) {
            0 => case.accept_encoding = Some(b"identity".to_vec()),
            // a client that prefers gzip, a server configured not to compress: identity coding
            1 => {
                case.accept_encoding = Some(b"gzip".to_vec());
                case.gzip_level = Some(0);
            }
            2 => {
                case.accept_encoding = Some(b"*;q=0.5, br".to_vec());
                case.gzip_level = Some(0);
            }
            _ => {}
        }
        vec![case]
    }, judge);
}

impl Prop for C08 {
    fn id(&self) -> &'static str {
        "C08"
    }
    fn level(&self) -> &'static str {
        "exploration"
    }
    fn rule(&self, ctx: &Ctx) -> String {
        format!("identity-coded streaming bodies. Alphabet per chunk size c: write(0,1,c-1,c,c+1,2c,3c), write_all(1,c+1,3c), write_vectored([c-1,2,c+1]), write_vectored([0,1,3c]), write!(two string arguments of 2 and 300 bytes), write!(4 arguments of c, 1, 260, 3 bytes), flush, poll-once, poll-until-pending; every sequence ends with drop + drain + 2 extra polls. Exhaustive: all sequences of length 1..={} for c in {{1,2,3,4,7}}, both request representations alternating; random: sequences of 10..200 ops for c in {{1,2,3,4,7,4096,65536}}; backlog histories: 1-40 MiB queued unread, then small writes + flush + drain; large-chunk histories: chunk sizes {{131072, 196608, 262144, 1 MiB, 100000}} filled by equal blocks of {{4096, 8192, 16384, 65536, 1000, 65537}} bytes (write / write_all, with and without intermediate flushes) to 2.5 chunks; a quarter of the streams is preceded on the same thread by another stream that is aborted, disconnected or abandoned. Payload byte k is a position hash. Non-trivial = distinct sequence that accepted >= 1 byte and whose frames, write counts, flush availability and clean end were compared with the sequential model",
            if thorough(ctx) { 5 } else { 4 })
    }
    fn n_blocks(&self, ctx: &Ctx) -> usize {
        c08_n_blocks(ctx)
    }
    fn exhaustive(&self, _: &Ctx) -> bool {
        false
    }
    fn run_block(&self, b: usize, sink: &mut Sink) {
        c08_block(b, sink, &c08_judge);
    }
    fn replay(&self, case: &Value, sink: &mut Sink) {
        replay(&c08_judge, case, sink);
    }
    fn floors(&self, _: &Ctx) -> Vec<(&'static str, u64)> {
        vec![("partial_writes", 1000), ("flush_availability_checked", 1000), ("pendings", 1000), ("frames", 10_000), ("backlog_histories", 100)]
    }
}

// =================================================================================== C09 ====

pub struct C09;

/// Optional dump of recorded gzip histories for the offline zlib re-check (thorough tier).
static DUMP: Mutex<Option<std::fs::File>> = Mutex::new(None);

static DUMPED: std::sync::atomic::AtomicU64 = std::sync::atomic::AtomicU64::new(0);

fn dump_history(o: &StreamObs, marks: &[(u64, u64)], prefix_only: bool) {
    if std::env::var_os("HSV_GZ_DUMP").is_none() || o.delivered.len() > 300_000 {
        return;
    }
    let max: u64 = std::env::var("HSV_GZ_DUMP_MAX").ok().and_then(|v| v.parse().ok()).unwrap_or(200 << 20);
    if DUMPED.fetch_add(2 * (o.delivered.len() + o.accepted.len()) as u64, std::sync::atomic::Ordering::Relaxed) > max {
        return;
    }
    if let Ok(mut g) = DUMP.lock() {
        if g.is_none() {
            if let Some(p) = std::env::var_os("HSV_GZ_DUMP") {
                *g = std::fs::OpenOptions::new().create(true).append(true).open(p).ok();
            }
        }
        if let Some(f) = g.as_mut() {
            let hex = |b: &[u8]| b.iter().map(|x| format!("{:02x}", x)).collect::<String>();
            let _ = writeln!(f, "{}", json!({"stream": hex(&o.delivered), "plain": hex(&o.accepted), "flush_marks": marks, "prefix_only": prefix_only}));
        }
    }
}

pub fn c09_judge(c: &StreamCase, o: &StreamObs, sink: &mut Sink) -> (Verdict, Option<u64>) {
    if let Some(p) = &o.build_panic {
        return (Verdict::viol(format!("build-panic@{}", norm_loc(p)), p.clone()), None);
    }
    if o.hdr("content-encoding") != Some(b"gzip") {
        return (Verdict::DontCare("gzip not negotiated".into()), None);
    }
    if !o.writer_returned {
        return (Verdict::DontCare("no writer (HEAD)".into()), None);
    }
    let mut flushed_mark = 0u64;
    // (compressed bytes available, plaintext bytes that must be decodable from them)
    let mut marks: Vec<(u64, u64)> = Vec::new();
    let mut ended = false;
    for (i, s) in o.steps.iter().enumerate() {
        match (&s.op, &s.res) {
            (_, Res::Panic(p)) => return (Verdict::viol(format!("panic|{}@{}", op_sig(&s.op), norm_loc(p)), format!("step {} {:?} panicked: {}", i, s.op, p)), None),
            (Op::Write(_) | Op::WriteV(_), Res::Write { offered: n, res }) => match res {
                Ok(m) => {
                    if *m > *n as usize {
                        return (Verdict::viol("write-count", format!("write({}) returned Ok({})", n, m)), None);
                    }
                    if *n > 0 && *m == 0 {
                        sink.count("gzip_write_accepted_zero");
                    }
                }
                Err(e) => return (Verdict::viol("write-error-on-live-body", format!("step {}: write failed: {}", i, e)), None),
            },
            (Op::WriteAll(_) | Op::WriteFmt(_), Res::Unit(Err(e))) | (Op::Flush, Res::Unit(Err(e))) => {
                return (Verdict::viol(format!("{}-error-on-live-body", op_sig(&s.op)), format!("step {}: {:?} failed: {}", i, s.op, e)), None);
            }
            (Op::Flush, Res::Unit(Ok(()))) => {
                flushed_mark = s.accepted;
                sink.count("flushes");
            }
            (Op::PollOnce | Op::PollAll, Res::Polls(polls)) => {
                for p in polls {
                    match &p.ev {
                        Ev::End => ended = true,
                        Ev::Err(e) => return (Verdict::viol("error-without-abort", format!("body reported {:?}", e)), None),
                        _ => {}
                    }
                }
                let settled = s.op == Op::PollAll && polls.last().is_some_and(|p| matches!(p.ev, Ev::Pending | Ev::End));
                if settled && flushed_mark > 0 && marks.last().map(|m| m.1) != Some(flushed_mark) {
                    let avail = &o.delivered[..s.delivered as usize];
                    match gz::inflate_prefix(avail) {
                        Err(e) => return (Verdict::viol("mid-stream-undecodable", format!("step {}: frames so far ({} bytes) do not inflate: {}", i, avail.len(), e)), None),
                        Ok(plain) => {
                            if (plain.len() as u64) < flushed_mark {
                                dump_history(&StreamObs { delivered: avail.to_vec(), accepted: o.accepted[..flushed_mark as usize].to_vec(), ..o.clone() }, &[(s.delivered, flushed_mark)], true);
                                return (
                                    Verdict::viol("flushed-bytes-not-decodable", format!("step {}: {} bytes were written before the flush, a streaming decoder fed the {} available bytes yields {}", i, flushed_mark, avail.len(), plain.len())),
                                    None,
                                );
                            }
                            if !o.accepted.starts_with(&plain) {
                                return (Verdict::viol("mid-stream-wrong-bytes", format!("step {}: decoded prefix differs from what was written", i)), None);
                            }
                            marks.push((s.delivered, flushed_mark));
                            sink.count("flush_decodability_checked");
                        }
                    }
                }
            }
            _ => {}
        }
    }
    if !ended {
        return (Verdict::viol("no-clean-end", "writer dropped and body drained, but no clean end was reported"), None);
    }
    match gz::parse_member(&o.delivered) {
        Err(e) => {
            let class: String = e.chars().filter(|c| !c.is_ascii_digit()).take(40).collect();
            return (Verdict::viol(format!("not-one-gzip-member|{}", class.trim()), format!("level {:?} chunk {}: {} (stream of {} bytes: {:?})", c.gzip_level, c.chunk, e, o.delivered.len(), show(&o.delivered[..o.delivered.len().min(40)]))), None);
        }
        Ok(plain) => {
            if plain != o.accepted {
                return (Verdict::viol("decompressed-differs", format!("decompressed {} bytes, written {} bytes", plain.len(), o.accepted.len())), None);
            }
        }
    }
    sink.count("members_verified");
    if o.accepted.is_empty() {
        sink.count("empty_payload_members");
    }
    dump_history(o, &marks, false);
    (Verdict::Ok, Some(hash64(c)))
}

const GZ_CHUNKS: [usize; 6] = [1, 2, 5, 17, 4096, 65_536];

pub fn c09_n_blocks(ctx: &Ctx) -> usize {
    seq_space(ctx, 3, 4).blocks.len() + if ctx.leg.slow() { 2 } else { 54 }
}

pub fn c09_block(b: usize, sink: &mut Sink, judge: &Judge) {
    let ctx = sink.ctx.clone();
    let sp = seq_space(&ctx, 3, 4);
    if b < sp.blocks.len() {
        let blk = sp.blocks[b];
        run_seq_block(&ctx, blk, 9, sink, &|c, ops, rng| {
            if blk.1 > 0 {
                [1u32, 6, 9].iter().map(|l| { let mut k = StreamCase::gzip(c, *l, ops.clone()); k.fresh_wakers = *l == 6; if rng.chance(1, 3) { k.prelude = rng.range(1, 5) as u8; } k }).collect()
            } else {
                let mut case = StreamCase::gzip(if c > 100 || rng.chance(1, 2) { c } else { *rng.pick(&[1usize, 2, 5, 17]) }, rng.range(1, 9) as u32, ops);
                case.payload = *rng.pick(&[Payload::Hash, Payload::Zeros, Payload::Text]);
                case.via_parts = rng.chance(1, 2);
                case.fresh_wakers = rng.chance(1, 2);
                if rng.chance(1, 3) {
                    case.prelude = rng.range(1, 5) as u8;
                }
                case.builder_detour = rng.below(4) as u8;
                case.noise = rng.below(6) as u8;
                case.version = if rng.chance(1, 3) { rng.range(1, 4) as u8 } else { 0 };
                vec![case]
            }
        }, judge);
    } else {
        // level x chunk product with large and mixed writes
        let k = b - sp.blocks.len();
        let level = (k % 9) as u32 + 1;
        let chunk = GZ_CHUNKS[(k / 9) % 6];
        let mut rng = Rng::from_parts(ctx.seed, &[99, k as u64]);
        let n = if ctx.leg.slow() { 1 } else if thorough(&ctx) { 40 } else { 4 };
        for i in 0..n {
            let big = if ctx.leg.slow() { 300 } else { *rng.pick(&[1000u32, 70_000, 200_000, 32_767, 32_768, 32_769, 65_535, 65_536, 65_537, 98_304]) };
            let mut ops = vec![Op::Flush, Op::PollAll, Op::WriteAll(big), Op::Flush, Op::PollAll, Op::Write(1), Op::WriteAll(rng.range(0, 5000) as u32), Op::PollOnce, Op::Flush, Op::Flush, Op::PollAll, Op::WriteAll(big / 3)];
            if i % 3 == 2 {
                // one vectored write whose first slice is large (the compressor's output buffer fills)
                ops.insert(2, Op::WriteV(vec![big, 1000, 0, 7]));
            }
            if i % 2 == 1 {
                ops.rotate_left(rng.below(6) as usize);
            }
            if i == 0 {
                ops = vec![]; // empty payload
            }
            let mut case = StreamCase::gzip(chunk, level, ops);
            case.payload = [Payload::Hash, Payload::Zeros, Payload::Text][(i + k) % 3];
            case.prelude = (i % 6) as u8;
            case.noise = ((i + k) % 6) as u8;
            exec(&case, sink, judge);
        }
        // a stalled reader: many small write+flush pairs without a poll, then a drain
        for (pairs, size) in [(10usize, 1u32), (40, 10), (100, 3), (300, 7)] {
            if ctx.leg.slow() && pairs > 10 {
                continue;
            }
            let mut case = StreamCase::gzip(chunk, level, stalled_reader_ops(pairs, size));
            case.payload = [Payload::Text, Payload::Hash][pairs % 2];
            case.fresh_wakers = pairs == 40;
            exec(&case, sink, judge);
            sink.count("stalled_reader_histories");
        }
    }
}

impl Prop for C09 {
    fn id(&self) -> &'static str {
        "C09"
    }
    fn level(&self) -> &'static str {
        "exploration"
    }
    fn rule(&self, ctx: &Ctx) -> String {
        format!("gzip-coded streaming bodies (Accept-Encoding: gzip). Exhaustive: all op sequences of length 1..={} over the C08 alphabet for chunk sizes {{1,2,3,4,7}} on levels 1,6,9; random: sequences of 10..200 ops x levels 1..9 x chunk sizes {:?} x payload class {{incompressible, zeros, text}} incl. large writes (up to 200 KiB). A third of the streams is preceded on the same thread by another stream of the same configuration that is aborted, disconnected or abandoned. Oracle: own gzip header/trailer parser + CRC-32 + raw inflate; after every flush a streaming inflater over the frames available so far. Non-trivial = distinct sequence whose delivered stream was verified to be exactly one gzip member equal to the bytes written",
            if thorough(ctx) { 4 } else { 3 }, GZ_CHUNKS)
    }
    fn n_blocks(&self, ctx: &Ctx) -> usize {
        seq_space(ctx, 3, 4).blocks.len() + if ctx.leg.slow() { 2 } else { 54 }
    }
    fn run_block(&self, b: usize, sink: &mut Sink) {
        c09_block(b, sink, &c09_judge);
    }
    fn replay(&self, case: &Value, sink: &mut Sink) {
        replay(&c09_judge, case, sink);
    }
    fn floors(&self, _: &Ctx) -> Vec<(&'static str, u64)> {
        vec![("members_verified", 5000), ("flush_decodability_checked", 1000), ("empty_payload_members", 10), ("stalled_reader_histories", 100)]
    }
    fn assumptions(&self) -> Vec<String> {
        vec!["inflate is flate2::Decompress (raw); header, trailer, CRC-32 and ISIZE are checked by the harness's own code; the thorough tier re-checks recorded streams with Python's zlib".into()]
    }
}

// =================================================================================== C17 ====

pub struct C17;

#[derive(Clone, Debug, PartialEq, Eq, Hash)]
struct NegCase {
    accept_encoding: Option<Vec<u8>>,
    level: Option<u32>,
    chunk: usize,
}

fn vary_has_accept_encoding(o: &StreamObs) -> bool {
    o.hdrs.iter().filter(|(k, _)| k == "vary").any(|(_, v)| std::str::from_utf8(v).unwrap_or("").split(',').any(|t| t.trim().eq_ignore_ascii_case("accept-encoding")))
}

fn c17_run(n: &NegCase, sink: &mut Sink) -> (Verdict, Option<u64>, Value) {
    let mut hm = http::HeaderMap::new();
    if let Some(ae) = &n.accept_encoding {
        match http::HeaderValue::from_bytes(ae) {
            Ok(v) => {
                hm.insert(http::header::ACCEPT_ENCODING, v);
            }
            Err(_) => return (Verdict::DontCare("inexpressible".into()), None, json!(null)),
        }
    }
    // the property defines the decision "as should_gzip decides": the real function is the reference
    let want_gzip = http_serve::should_gzip(&hm) && n.level.unwrap_or(6) > 0;
    let mut rendered = Vec::new();
    let mut first_hdrs: Option<Vec<(String, Vec<u8>)>> = None;
    for method in ["GET", "POST", "HEAD"] {
        for via_parts in [false, true] {
            // every fifth configuration writes nothing at all (flushes and an empty write only):
            // the body is then the coding of zero bytes
            let empty = hash64(n) % 5 == 4;
            let case = StreamCase { method: method.into(), accept_encoding: n.accept_encoding.clone(), chunk: n.chunk, gzip_level: n.level, via_parts, payload: Payload::Text, ops: if empty { vec![Op::Flush, Op::Write(0), Op::Flush] } else { vec![Op::WriteAll(300), Op::WriteV(vec![n.chunk as u32 + 1, 40, 2 * n.chunk as u32]), Op::WriteAll(5)] }, extra_polls: 1, fresh_wakers: false, prelude: 0, builder_detour: (hash64(n) % 4) as u8, noise: ((hash64(n) >> 8) % 6) as u8, version: ((hash64(n) >> 16) % 5) as u8 };
            let o = match run_stream(&case) {
                Some(o) => o,
                None => return (Verdict::DontCare("inexpressible".into()), None, json!(null)),
            };
            let tag = format!("{}|parts={}", method, via_parts);
            rendered.push(json!({"method": method, "via_parts": via_parts, "observed": o.to_json()}));
            let fail = |sig: String, msg: String, rendered: &Vec<Value>| (Verdict::viol(sig, msg), None, json!({"case": {"accept_encoding": n.accept_encoding.as_ref().map(|v| crate::util::bytes_to_json(v)), "level": n.level, "chunk": n.chunk}, "runs": rendered}));
            if let Some(p) = &o.build_panic {
                return fail(format!("build-panic@{}", norm_loc(p)), p.clone(), &rendered);
            }
            if !vary_has_accept_encoding(&o) {
                return fail(format!("vary-missing|gzip={}", want_gzip), format!("{}: no Vary: accept-encoding (headers {:?})", tag, o.hdrs.iter().map(|(k, v)| format!("{}: {}", k, show(v))).collect::<Vec<_>>()), &rendered);
            }
            let ce = o.hdr("content-encoding");
            let has_gzip = ce == Some(b"gzip");
            if ce.is_some() && !has_gzip {
                return fail("content-encoding-other".into(), format!("{}: Content-Encoding {:?}", tag, ce.map(show)), &rendered);
            }
            if has_gzip != want_gzip {
                return fail(format!("content-encoding-mismatch|want={}|{}", want_gzip, if method == "HEAD" { "head" } else { "body" }), format!("{}: Accept-Encoding {:?} level {:?}: should_gzip && level>0 = {}, Content-Encoding: gzip present = {}", tag, n.accept_encoding.as_ref().map(|v| show(v)), n.level, want_gzip, has_gzip), &rendered);
            }
            if (method == "HEAD") == o.writer_returned {
                return fail(format!("writer-presence|{}", method), format!("{}: writer returned = {}", tag, o.writer_returned), &rendered);
            }
            let mut h = o.hdrs.clone();
            h.sort();
            match &first_hdrs {
                None => first_hdrs = Some(h),
                Some(f) => {
                    if *f != h {
                        return fail(format!("headers-differ|{}", tag), format!("{}: headers {:?} differ from GET/Request's {:?}", tag, h, f), &rendered);
                    }
                }
            }
            if method == "HEAD" {
                if !o.delivered.is_empty() {
                    return fail("head-body-not-empty".into(), format!("{}: {} body bytes", tag, o.delivered.len()), &rendered);
                }
                continue;
            }
            // what the writer reported as accepted (write_all, one vectored write, write_all)
            let plain = &o.accepted;
            if empty {
                sink.count("empty_bodies");
            }
            if plain.len() < 300 && !empty {
                return fail("write-refused".into(), format!("{}: only {} bytes were accepted by a live writer", tag, plain.len()), &rendered);
            }
            let ended = o.all_polls().any(|p| p.ev == Ev::End);
            if !ended {
                return fail(format!("no-clean-end|gzip={}", has_gzip), format!("{}: body did not end cleanly", tag), &rendered);
            }
            if has_gzip {
                match gz::parse_member(&o.delivered) {
                    Ok(p) if p == *plain => sink.count("gzip_bodies_verified"),
                    Ok(_) => return fail("gzip-body-wrong-bytes".into(), format!("{}: gzip member decodes to other bytes", tag), &rendered),
                    Err(e) => return fail("header-says-gzip-body-is-not".into(), format!("{}: Content-Encoding: gzip but the body is not a gzip member: {}", tag, e), &rendered),
                }
            } else if o.delivered != *plain {
                return fail(format!("identity-body-not-verbatim|{}", if o.delivered.starts_with(&[0x1f, 0x8b]) { "is-gzip" } else { "other" }), format!("{}: no Content-Encoding but body ({} bytes) is not the {} bytes written", tag, o.delivered.len(), plain.len()), &rendered);
            } else {
                sink.count("identity_bodies_verified");
            }
        }
    }
    sink.count(if want_gzip { "configs_gzip" } else { "configs_identity" });
    (Verdict::Ok, Some(hash64(n)), json!({"case": {"accept_encoding": n.accept_encoding.as_ref().map(|v| crate::util::bytes_to_json(v)), "level": n.level, "chunk": n.chunk}, "want_gzip": want_gzip, "runs": rendered.into_iter().take(2).collect::<Vec<_>>()}))
}

/// Many bodies alive at the same time (a server under load): every one must still have the coding
/// its header announces.
fn c17_many_live(k: usize, sink: &mut Sink) {
    use crate::e2::build;
    let n = [70usize, 300, 1000][k];
    if !sink.admit() {
        return;
    }
    let desc = json!({"many_live_bodies": n});
    let plain = payload(Payload::Text, 0, 200);
    let r = crate::util::catch(|| -> Option<String> {
        let mut live = Vec::new();
        for i in 0..n {
            let gz = i % 3 != 2;
            let case = StreamCase { method: "GET".into(), accept_encoding: if gz { Some(b"gzip".to_vec()) } else { None }, chunk: 4096, gzip_level: Some(1 + (i % 9) as u32), via_parts: i % 2 == 0, payload: Payload::Text, ops: vec![], extra_polls: 0, fresh_wakers: false, prelude: 0, builder_detour: 0, noise: 0, version: 0 };
            match build(&case) {
                Some((resp, Some(w))) => live.push((gz, resp, w)),
                _ => return Some("build returned no writer".into()),
            }
        }
        for (i, (gz, resp, mut w)) in live.into_iter().enumerate() {
            let says_gzip = resp.headers().get("content-encoding").is_some_and(|v| v.as_bytes() == b"gzip");
            if says_gzip != gz {
                return Some(format!("body {} of {} live ones: Content-Encoding: gzip present = {}, negotiated = {}", i, n, says_gzip, gz));
            }
            if w.write_all(&plain).is_err() {
                return Some(format!("body {}: write failed", i));
            }
            drop(w);
            let d = crate::bodymon::drain(resp.into_body(), u64::MAX, 0);
            let ok = if says_gzip { gz::parse_member(&d.data).map(|p| p == plain).unwrap_or(false) } else { d.data == plain };
            if !ok {
                return Some(format!("body {} of {} live ones: header says {}, body ({} bytes, starts {:?}) is not that", i, n, if says_gzip { "gzip" } else { "identity" }, d.data.len(), &d.data[..d.data.len().min(4)]));
            }
        }
        None
    });
    let v = match r {
        Err(p) => Verdict::viol(format!("panic|many-live@{}", norm_loc(&p)), p),
        Ok(Some(m)) => Verdict::viol("coding-mismatch|many-live-bodies", m),
        Ok(None) => {
            sink.add("bodies_verified_while_many_live", n as u64);
            Verdict::Ok
        }
    };
    sink.record(v, Some(hash64(&("many", n))), &|| desc.clone());
}

pub fn c17_accept_encodings() -> Vec<Option<Vec<u8>>> {
    let codings = ["gzip", "identity", "*", "br", "deflate", "x-gzip"];
    let weights = ["", ";q=0", ";q=0.", ";q=0.0", ";q=0.000", ";q=0.001", ";q=0.5", ";q=0.999", ";q=1", ";q=1.", ";q=1.000"];
    let mut v: Vec<Option<Vec<u8>>> = vec![None, Some(vec![]), Some(b"gzip;q=2".to_vec()), Some(b"GZIP".to_vec()), Some(vec![0xff]), Some(b"gzip, ".to_vec()), Some(b" gzip ; q=0.5 , identity ; q=0.4".to_vec())];
    for c in codings {
        for w in weights {
            v.push(Some(format!("{}{}", c, w).into_bytes()));
        }
    }
    let three = ["gzip", "identity", "*"];
    let w2 = ["", ";q=0", ";q=0.001", ";q=0.5", ";q=1"];
    for a in three {
        for b in three {
            for wa in w2 {
                for wb in w2 {
                    v.push(Some(format!("{}{}, {}{}", a, wa, b, wb).into_bytes()));
                }
            }
        }
    }
    v
}

impl Prop for C17 {
    fn id(&self) -> &'static str {
        "C17"
    }
    fn level(&self) -> &'static str {
        "exploration"
    }
    fn rule(&self, _: &Ctx) -> String {
        "full product: Accept-Encoding {absent, empty, invalid, all 66 single elements (6 codings x 11 weights), all 225 pairs over {gzip, identity, *} x 5 weights} x gzip level {default, 0..9} x chunk size {1, 7, 4096}; each configuration is built for GET, POST and HEAD, as Request and as Parts (6 builds; five sixths of the configurations carry unrelated request headers - Cache-Control, Range, TE, Content-Encoding ... -; three quarters of the configurations reach their settings through earlier, overridden builder calls), write_all(300) + one write_vectored of three slices + write_all(5) - or, for every fifth configuration, nothing but flushes and an empty write -, body drained; plus 70 / 300 / 1000 bodies alive at the same time, each then written, drained and verified. Non-trivial = distinct configuration whose Vary / Content-Encoding were compared with should_gzip && level > 0, whose body coding was verified against the header (gzip member parser / verbatim bytes), and whose HEAD/Parts variants were compared".into()
    }
    fn n_blocks(&self, ctx: &Ctx) -> usize {
        if ctx.leg.slow() { 4 } else { 11 * 3 + 3 }
    }
    fn exhaustive(&self, _: &Ctx) -> bool {
        true
    }
    fn run_block(&self, b: usize, sink: &mut Sink) {
        if b >= 11 * 3 {
            c17_many_live(b - 11 * 3, sink);
            return;
        }
        let levels: [Option<u32>; 11] = [None, Some(0), Some(1), Some(2), Some(3), Some(4), Some(5), Some(6), Some(7), Some(8), Some(9)];
        let level = levels[b % 11];
        let chunk = [1usize, 7, 4096][(b / 11) % 3];
        let slow = sink.ctx.leg.slow();
        for (i, ae) in c17_accept_encodings().into_iter().enumerate() {
            if slow && i % 23 != b {
                continue;
            }
            if !sink.admit() {
                continue;
            }
            let n = NegCase { accept_encoding: ae, level, chunk };
            let (v, nt, rendered) = c17_run(&n, sink);
            sink.record(v, nt, &|| rendered.clone());
        }
    }
    fn replay(&self, case: &Value, sink: &mut Sink) {
        let c = if case.get("case").is_some() { &case["case"] } else { case };
        let n = NegCase {
            accept_encoding: match &c["accept_encoding"] {
                Value::Null => None,
                x => Some(crate::util::bytes_from_json(x)),
            },
            level: c["level"].as_u64().map(|x| x as u32),
            chunk: c["chunk"].as_u64().unwrap_or(4096) as usize,
        };
        let (v, nt, rendered) = c17_run(&n, sink);
        sink.record(v, nt, &|| rendered.clone());
    }
    fn floors(&self, _: &Ctx) -> Vec<(&'static str, u64)> {
        vec![("configs_gzip", 1000), ("configs_identity", 1000), ("gzip_bodies_verified", 1000), ("identity_bodies_verified", 1000), ("bodies_verified_while_many_live", 1000)]
    }
    fn assumptions(&self) -> Vec<String> {
        vec!["the negotiation decision itself is taken from the real should_gzip (the statement says 'as should_gzip decides'); C16 judges that function against the RFC model".into()]
    }
}

// ========================================================================== C11 (sequential) ==

/// Judges one sequential history containing an `Abort` or a `DropBody`.
pub fn c11_seq_judge(c: &StreamCase, o: &StreamObs, sink: &mut Sink) -> (Verdict, Option<u64>) {
    if let Some(p) = &o.build_panic {
        return (Verdict::viol(format!("build-panic@{}", norm_loc(p)), p.clone()), None);
    }
    if !o.writer_returned {
        return (Verdict::DontCare("no writer".into()), None);
    }
    let gzip = o.hdr("content-encoding") == Some(b"gzip");
    let mode = if gzip { "gzip" } else { "raw" };
    let mut aborted = false;
    let mut body_dropped = false;
    let mut writer_dead = false; // a write/flush has failed
    let mut error_delivered = false;
    let mut buffered: u64 = 0; // raw: accepted but not yet published bytes
    let cap = c.chunk as u64;
    let mut prev_accepted = 0u64;
    let mut fault_seen = false;
    for (i, s) in o.steps.iter().enumerate() {
        if let Res::Panic(p) = &s.res {
            return (Verdict::viol(format!("panic|{}|{}@{}", mode, op_sig(&s.op), norm_loc(p)), format!("step {} {:?} panicked: {}", i, s.op, p)), None);
        }
        let newly = s.accepted - prev_accepted;
        prev_accepted = s.accepted;
        match (&s.op, &s.res) {
            (Op::Abort, Res::Done) => {
                aborted = true;
                fault_seen = true;
            }
            (Op::DropBody, Res::Done) => {
                body_dropped = true;
                fault_seen = true;
            }
            (Op::Write(_) | Op::WriteV(_), Res::Write { offered: n, res }) => {
                let ok = res.is_ok();
                if aborted && ok {
                    return (Verdict::viol(format!("write-ok-after-abort|{}", mode), format!("step {}: write({}) returned {:?} after abort", i, n, res)), None);
                }
                if writer_dead && ok {
                    return (Verdict::viol(format!("write-ok-after-error|{}", mode), format!("step {}: write({}) returned {:?} after an earlier write/flush had failed", i, n, res)), None);
                }
                if !gzip {
                    let completes = buffered + newly >= cap && *n > 0 && ok;
                    if body_dropped && completes {
                        return (Verdict::viol("chunk-completing-write-ok-after-body-drop|raw", format!("step {}: write({}) completed a {}-byte chunk and returned {:?} although the body had been dropped", i, n, cap, res)), None);
                    }
                    if ok {
                        buffered = (buffered + newly) % cap;
                    }
                }
                if !ok {
                    writer_dead = true;
                    if body_dropped {
                        sink.count("writer_told_body_gone");
                    }
                }
            }
            (Op::WriteAll(n), Res::Unit(r)) => {
                let ok = r.is_ok();
                if *n > 0 {
                    if aborted && ok {
                        return (Verdict::viol(format!("write-ok-after-abort|{}", mode), format!("step {}: write_all({}) succeeded after abort", i, n)), None);
                    }
                    if writer_dead && ok {
                        return (Verdict::viol(format!("write-ok-after-error|{}", mode), format!("step {}: write_all({}) succeeded after an earlier failure", i, n)), None);
                    }
                    if !gzip {
                        if body_dropped && ok && buffered + *n as u64 >= cap {
                            return (Verdict::viol("chunk-completing-write-ok-after-body-drop|raw", format!("step {}: write_all({}) completed a {}-byte chunk and succeeded although the body had been dropped", i, n, cap)), None);
                        }
                        if ok {
                            buffered = (buffered + *n as u64) % cap;
                        }
                    }
                }
                if !ok {
                    writer_dead = true;
                    if body_dropped {
                        sink.count("writer_told_body_gone");
                    }
                }
            }
            (Op::Flush, Res::Unit(r)) => {
                let ok = r.is_ok();
                if aborted && ok {
                    return (Verdict::viol(format!("flush-ok-after-abort|{}", mode), format!("step {}: flush succeeded after abort", i)), None);
                }
                if writer_dead && ok {
                    return (Verdict::viol(format!("flush-ok-after-error|{}", mode), format!("step {}: flush succeeded after an earlier failure", i)), None);
                }
                if body_dropped && ok && (gzip || buffered > 0) {
                    return (Verdict::viol(format!("flush-ok-after-body-drop|{}", mode), format!("step {}: flush with {} succeeded although the body had been dropped", i, if gzip { "a gzip stream".to_string() } else { format!("{} unpublished bytes", buffered) })), None);
                }
                if ok {
                    buffered = 0;
                } else {
                    writer_dead = true;
                    if body_dropped {
                        sink.count("writer_told_body_gone");
                    }
                }
            }
            (Op::PollOnce | Op::PollAll, Res::Polls(polls)) => {
                for p in polls {
                    if aborted && !error_delivered && p.is_end {
                        return (Verdict::viol(format!("is-end-stream-while-error-pending|{}", mode), format!("step {}: is_end_stream() = true after abort, before the error was delivered", i)), None);
                    }
                    match &p.ev {
                        Ev::End => {
                            if aborted && !error_delivered {
                                return (Verdict::viol(format!("clean-end-after-abort|{}", mode), format!("step {}: body ended cleanly after abort", i)), None);
                            }
                        }
                        Ev::Err(_) => {
                            if !aborted {
                                return (Verdict::viol(format!("error-without-abort|{}", mode), format!("step {}: error without abort", i)), None);
                            }
                            error_delivered = true;
                        }
                        Ev::Pending => {
                            if aborted && !error_delivered {
                                return (Verdict::viol(format!("pending-after-abort|{}", mode), format!("step {}: Pending although an abort error is undelivered", i)), None);
                            }
                        }
                        _ => {}
                    }
                }
            }
            _ => {}
        }
    }
    if !fault_seen {
        return (Verdict::DontCare("no abort / body drop in this history".into()), None);
    }
    if aborted && !body_dropped && !error_delivered {
        return (Verdict::viol(format!("abort-error-never-delivered|{}", mode), "abort was called, the body was drained, no error was reported"), None);
    }
    // bytes delivered are a prefix of the bytes written
    if gzip {
        match gz::inflate_prefix(&o.delivered) {
            Ok(plain) => {
                if !o.accepted.starts_with(&plain) {
                    return (Verdict::viol("delivered-not-a-prefix|gzip", "inflated delivered bytes are not a prefix of the bytes written"), None);
                }
            }
            Err(e) => return (Verdict::viol("delivered-undecodable|gzip", format!("delivered bytes do not inflate: {}", e)), None),
        }
    } else if !o.accepted.starts_with(&o.delivered) {
        return (Verdict::viol("delivered-not-a-prefix|raw", "delivered bytes are not a prefix of the bytes written"), None);
    }
    sink.count(if aborted { "abort_histories" } else { "body_drop_histories" });
    (Verdict::Ok, Some(hash64(c)))
}

/// Memory clause: (a) what was queued is released once the body is dropped; (b) a writer whose
/// body is gone does not buffer without bound.
pub fn c11_memory_case(chunk: usize, gzip: Option<u32>, sink: &mut Sink) -> (Verdict, Option<u64>, Value) {
    match crate::util::catch(std::panic::AssertUnwindSafe(|| c11_memory_case_inner(chunk, gzip, sink))) {
        Ok(r) => r,
        Err(p) => (Verdict::viol(format!("panic|memory-case@{}", norm_loc(&p)), format!("writer operation panicked: {}", p)), None, json!({"memory_case": {"chunk": chunk, "gzip_level": gzip}})),
    }
}

fn c11_memory_case_inner(chunk: usize, gzip: Option<u32>, sink: &mut Sink) -> (Verdict, Option<u64>, Value) {
    use crate::e2::build;
    let mut case = StreamCase::raw(chunk, vec![]);
    if let Some(l) = gzip {
        case = StreamCase::gzip(chunk, l, vec![]);
    }
    let desc = json!({"memory_case": {"chunk": chunk, "gzip_level": gzip}});
    let built = match build(&case) {
        Some((resp, Some(w))) => (resp, w),
        _ => return (Verdict::DontCare("no writer".into()), None, desc),
    };
    let (resp, w) = built;
    let mut resp = crate::util::LeakOnPanic::new(resp);
    let mut w = crate::util::LeakOnPanic::new(w);
    let mode = if gzip.is_some() { "gzip" } else { "raw" };
    let base = crate::alloc::live();
    // queue >= 1 MiB of incompressible data
    let data = payload(Payload::Hash, 0, 64 * 1024);
    let mut total = 0usize;
    while total < (3 << 19) {
        if w.get().write_all(&data).is_err() {
            return (Verdict::DontCare("write failed while the body was alive (C08)".into()), None, desc);
        }
        total += data.len();
    }
    let _ = w.get().flush();
    let queued = crate::alloc::live() - base;
    if queued < (1 << 20) {
        return (Verdict::DontCare(format!("only {} bytes queued", queued)), None, desc);
    }
    drop(resp.take()); // client gone
    let _ = w.get().write(&data[..1]);
    let _ = w.get().flush();
    let after = crate::alloc::live() - base;
    if after > queued / 10 {
        return (
            Verdict::viol(format!("queue-not-released|{}", mode), format!("{} bytes were queued; after the body was dropped and one more write+flush, {} bytes are still live", queued, after)),
            None,
            desc,
        );
    }
    // keep writing: must not grow without bound
    let before = crate::alloc::live();
    let chunk_data = payload(Payload::Hash, 7, chunk.max(1));
    let mut errors = 0;
    for _ in 0..1000 {
        if w.get().write_all(&chunk_data).is_err() {
            errors += 1;
        }
        if w.get().flush().is_err() {
            errors += 1;
        }
    }
    let growth = crate::alloc::live() - before;
    if growth > 64 * chunk as i64 + 65_536 {
        return (
            Verdict::viol(format!("unbounded-buffering|{}", mode), format!("after the body was dropped, 1000 chunk-sized writes grew the live heap by {} bytes ({} errors reported)", growth, errors)),
            None,
            desc,
        );
    }
    sink.count("memory_release_checked");
    sink.add("memory_case_errors_reported", errors);
    drop(w.take());
    (Verdict::Ok, Some(hash64(&(chunk, gzip))), desc)
}

/// The C11 alphabet: the plain one plus two vectored writes.
pub fn alphabet_c11(c: usize) -> Vec<Op> {
    let mut v = alphabet(c);
    let c = c as u32;
    v.push(Op::WriteV(vec![c.saturating_sub(1).max(1), 2, c + 1]));
    v.push(Op::WriteV(vec![0, 1, 3 * c]));
    v
}

pub struct C11SeqSpace {
    pub blocks: Vec<(usize, usize, usize)>,
}

pub fn c11_seq_space(ctx: &Ctx) -> C11SeqSpace {
    let mut blocks = Vec::new();
    let max_len = if ctx.leg.slow() { 1 } else if thorough(ctx) { 4 } else { 3 };
    for &c in &[1usize, 2, 3, 4, 7] {
        let a = alphabet_c11(c).len();
        for len in 0..=max_len {
            if len == 0 {
                blocks.push((c, 0, 0));
            } else {
                for first in 0..a {
                    blocks.push((c, len, first));
                }
            }
        }
    }
    C11SeqSpace { blocks }
}

pub fn c11_run_seq_block(ctx: &Ctx, blk: (usize, usize, usize), sink: &mut Sink, judge: &Judge) {
    let (c, len, first) = blk;
    let alpha = alphabet_c11(c);
    let seqs: Vec<Vec<Op>> = if len == 0 {
        vec![vec![]]
    } else {
        let rest = len - 1;
        (0..(alpha.len() as u64).pow(rest as u32))
            .map(|idx| {
                let mut ops = vec![alpha[first].clone()];
                ops.extend(seq_from_index(&alpha, rest, idx));
                ops
            })
            .collect()
    };
    for ops in seqs {
        for pos in 0..=ops.len() {
            for fault in [Op::Abort, Op::DropBody] {
                let mut with = ops.clone();
                with.insert(pos, fault.clone());
                // follow-up operations so that "every later write or flush fails" is exercised
                with.extend([Op::Write(1), Op::Flush, Op::Write(c as u32), Op::PollAll]);
                for level in [None, Some(1u32), Some(6)] {
                    if ctx.leg.slow() && level == Some(6) {
                        continue;
                    }
                    let case = match level {
                        None => StreamCase::raw(c, with.clone()),
                        Some(l) => StreamCase::gzip(c, l, with.clone()),
                    };
                    exec(&case, sink, judge);
                }
            }
        }
        if sink.stopped() {
            return;
        }
    }
}
