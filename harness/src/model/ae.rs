//! RFC 7231 section 5.3.4 model of "gzip preferred over (or equal to) identity".

#[derive(Clone, Debug, PartialEq, Eq)]
pub enum Parsed {
    /// (coding as written, quality in thousandths)
    Elems(Vec<(String, u16)>),
    /// Recipient leniency (empty list elements, upper-case `Q=`): not judged.
    Lenient,
    Invalid,
}

fn is_tchar(c: u8) -> bool {
    c.is_ascii_alphanumeric() || b"!#$%&'*+-.^_`|~".contains(&c)
}

pub fn parse_qvalue(s: &str) -> Option<u16> {
    let b = s.as_bytes();
    match b.first()? {
        b'0' => {
            if b.len() == 1 {
                return Some(0);
            }
            if b[1] != b'.' || b.len() > 5 {
                return None;
            }
            let mut q = 0u16;
            let mut scale = 100;
            for c in &b[2..] {
                if !c.is_ascii_digit() {
                    return None;
                }
                q += (c - b'0') as u16 * scale;
                scale /= 10;
            }
            Some(q)
        }
        b'1' => {
            if b.len() == 1 {
                return Some(1000);
            }
            if b[1] != b'.' || b.len() > 5 || !b[2..].iter().all(|&c| c == b'0') {
                return None;
            }
            Some(1000)
        }
        _ => None,
    }
}

fn trim(s: &str) -> &str {
    s.trim_matches(|c| c == ' ' || c == '\t')
}

pub fn parse(v: &[u8]) -> Parsed {
    let s = match std::str::from_utf8(v) {
        Ok(s) if s.is_ascii() => s,
        _ => return Parsed::Invalid,
    };
    if s.is_empty() {
        return Parsed::Elems(Vec::new());
    }
    let mut out = Vec::new();
    let mut lenient = false;
    for e in s.split(',') {
        let e = trim(e);
        if e.is_empty() {
            lenient = true;
            continue;
        }
        let (coding, q) = match e.split_once(';') {
            None => (e, 1000),
            Some((c, w)) => {
                let w = trim(w);
                let qv = if let Some(q) = w.strip_prefix("q=") {
                    q
                } else if let Some(q) = w.strip_prefix("Q=") {
                    lenient = true;
                    q
                } else {
                    return Parsed::Invalid;
                };
                match parse_qvalue(qv) {
                    Some(q) => (trim(c), q),
                    None => return Parsed::Invalid,
                }
            }
        };
        if coding.is_empty() || !coding.bytes().all(is_tchar) {
            return Parsed::Invalid;
        }
        out.push((coding.to_string(), q));
    }
    if lenient {
        Parsed::Lenient
    } else {
        Parsed::Elems(out)
    }
}

#[derive(Clone, Copy)]
enum Dup {
    First,
    Last,
    Max,
    Min,
}

fn quality(elems: &[(String, u16)], name: &str, d: Dup) -> Option<u16> {
    let mut it = elems.iter().filter(|(c, _)| c == name).map(|(_, q)| *q);
    match d {
        Dup::First => it.next(),
        Dup::Last => it.last(),
        Dup::Max => it.max(),
        Dup::Min => it.min(),
    }
}

fn decide_with(elems: &[(String, u16)], d: Dup) -> bool {
    let star = quality(elems, "*", d);
    let g = quality(elems, "gzip", d).or(star).unwrap_or(0);
    // identity: own quality, else `*`'s, else the least-preferred acceptable coding
    let i = quality(elems, "identity", d).or(star);
    g > 0 && i.is_none_or(|i| g >= i)
}

/// The answer the property prescribes, or None where it is silent (a coding listed twice with
/// weights that make the interpretations disagree; codings written in another case).
pub fn decide(elems: &[(String, u16)]) -> Option<bool> {
    for (c, _) in elems {
        let l = c.to_ascii_lowercase();
        if *c != l && (l == "gzip" || l == "identity") {
            return None;
        }
    }
    let r = decide_with(elems, Dup::First);
    for d in [Dup::Last, Dup::Max, Dup::Min] {
        if decide_with(elems, d) != r {
            return None;
        }
    }
    Some(r)
}

/// Convenience: judged expectation for a raw header value.
pub fn expect(v: &[u8]) -> Option<bool> {
    match parse(v) {
        Parsed::Elems(e) => decide(&e),
        _ => None,
    }
}

#[cfg(test)]
mod tests {
    use super::*;
    #[test]
    fn rfc_examples() {
        assert_eq!(expect(b""), Some(false));
        assert_eq!(expect(b"gzip"), Some(true));
        assert_eq!(expect(b"gzip;q=0.001"), Some(true));
        assert_eq!(expect(b"gzip;q=0"), Some(false));
        assert_eq!(expect(b"*"), Some(true));
        assert_eq!(expect(b"gzip;q=0, *"), Some(false));
        assert_eq!(expect(b"identity;q=0.5, gzip;q=1.0"), Some(true));
        assert_eq!(expect(b"identity;q=1.0, gzip;q=0.5"), Some(false));
        assert_eq!(expect(b"*;q=0"), Some(false));
        assert_eq!(expect(b"br, deflate"), Some(false));
        assert_eq!(expect(b"gzip;q=0.5, *;q=0.6"), Some(false));
        assert_eq!(expect(b"gzip;q=0.5, gzip;q=0"), None);
        assert_eq!(expect(b"gzip;q=2"), None);
        assert_eq!(expect(b"gzip ; q=0.5 , identity;q=0.5"), Some(true));
        assert_eq!(parse(b"gzip,"), Parsed::Lenient);
        assert_eq!(parse(b"gzip;q = 1"), Parsed::Invalid);
    }
}
