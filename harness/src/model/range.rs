//! RFC 7233 Range header model: grammar classification and resolution against a length.

#[derive(Clone, Debug, PartialEq, Eq)]
pub enum Spec {
    /// first-byte-pos "-" [ last-byte-pos ]
    FromTo(u128, Option<u128>),
    /// "-" suffix-length
    Suffix(u128),
}

#[derive(Clone, Debug, PartialEq, Eq)]
pub enum Parsed {
    /// Strictly grammatical `bytes=` set in the sender grammar, OWS only after commas.
    Bytes {
        specs: Vec<Spec>,
        /// some number exceeds 2^64-1
        beyond_u64: bool,
        /// some spec has last < first (RFC: invalid byte-range-spec)
        inverted: bool,
    },
    /// Well-formed specifier in a unit other than `bytes` (compared case-sensitively).
    OtherUnit,
    /// Forms a tolerant recipient may or may not accept (empty list elements, OWS before a
    /// comma or after `=`, unit in another case): never judged.
    Lenient,
    /// Unambiguously outside the grammar.
    Invalid,
}

fn is_tchar(c: u8) -> bool {
    c.is_ascii_alphanumeric() || b"!#$%&'*+-.^_`|~".contains(&c)
}

fn num(s: &[u8]) -> Option<u128> {
    if s.is_empty() || !s.iter().all(|c| c.is_ascii_digit()) {
        return None;
    }
    let mut v: u128 = 0;
    for c in s {
        v = v.saturating_mul(10).saturating_add((c - b'0') as u128);
    }
    Some(v)
}

fn spec(e: &[u8]) -> Option<Spec> {
    let h = e.iter().position(|&c| c == b'-')?;
    if h == 0 {
        Some(Spec::Suffix(num(&e[1..])?))
    } else {
        let first = num(&e[..h])?;
        if h + 1 == e.len() {
            Some(Spec::FromTo(first, None))
        } else {
            Some(Spec::FromTo(first, Some(num(&e[h + 1..])?)))
        }
    }
}

fn trim_ows(mut s: &[u8]) -> &[u8] {
    while let [b' ' | b'\t', r @ ..] = s {
        s = r;
    }
    while let [r @ .., b' ' | b'\t'] = s {
        s = r;
    }
    s
}

pub fn parse(v: &[u8]) -> Parsed {
    let eq = match v.iter().position(|&c| c == b'=') {
        None => return Parsed::Invalid,
        Some(e) => e,
    };
    let unit = &v[..eq];
    let set = &v[eq + 1..];
    if unit.is_empty() || !unit.iter().all(|&c| is_tchar(c)) {
        // e.g. "bytes =1-2": might be leniently trimmed by someone, but a space is not a tchar
        // and no list rule allows it: invalid.
        return Parsed::Invalid;
    }
    if unit != b"bytes" {
        if unit.eq_ignore_ascii_case(b"bytes") {
            return Parsed::Lenient;
        }
        // other-range-set = 1*VCHAR
        if !set.is_empty() && set.iter().all(|&c| (0x21..0x7f).contains(&c)) {
            return Parsed::OtherUnit;
        }
        return Parsed::Invalid;
    }
    // strict: element *( "," OWS element ), i.e. OWS only after commas
    let mut strict = true;
    let mut specs = Vec::new();
    let mut lenient_ok = true;
    let mut lenient_n = 0;
    for (i, raw) in set.split(|&c| c == b',').enumerate() {
        let mut e = raw;
        if i > 0 {
            while let [b' ' | b'\t', r @ ..] = e {
                e = r;
            }
        }
        match spec(e) {
            Some(s) if strict => specs.push(s),
            _ => strict = false,
        }
        let t = trim_ows(raw);
        if t.is_empty() {
            continue;
        }
        if spec(t).is_some() {
            lenient_n += 1;
        } else {
            lenient_ok = false;
        }
    }
    if strict {
        let mut beyond = false;
        let mut inverted = false;
        for s in &specs {
            match *s {
                Spec::FromTo(a, b) => {
                    beyond |= a > u64::MAX as u128 || b.is_some_and(|b| b > u64::MAX as u128);
                    inverted |= b.is_some_and(|b| b < a);
                }
                Spec::Suffix(n) => beyond |= n > u64::MAX as u128,
            }
        }
        return Parsed::Bytes {
            specs,
            beyond_u64: beyond,
            inverted,
        };
    }
    if lenient_ok && lenient_n > 0 {
        return Parsed::Lenient;
    }
    Parsed::Invalid
}

/// Closed ranges (first, last) selected by `specs` for an entity of length `len` > 0, in
/// request order, per the property statement. Inverted specs are dropped here; the caller
/// decides how to treat requests that contain one.
pub fn resolve(specs: &[Spec], len: u64) -> Vec<(u64, u64)> {
    let l = len as u128;
    let mut out = Vec::new();
    if l == 0 {
        return out;
    }
    for s in specs {
        match *s {
            Spec::FromTo(first, last) => {
                if first >= l {
                    continue;
                }
                let last = match last {
                    None => l - 1,
                    Some(x) => x.min(l - 1),
                };
                if last < first {
                    continue;
                }
                out.push((first as u64, last as u64));
            }
            Spec::Suffix(n) => {
                let n = n.min(l);
                if n == 0 {
                    continue;
                }
                out.push(((l - n) as u64, (l - 1) as u64));
            }
        }
    }
    out
}

#[derive(Clone, Debug, PartialEq, Eq)]
pub enum Expect {
    /// complete 200, no Content-Range
    Full,
    /// 416 + `Content-Range: bytes */L`
    Unsat,
    /// single-range 206
    Single(u64, u64),
    /// multipart of exactly these or a complete 200; `must_multipart` / `must_full` narrow it
    Multi {
        ranges: Vec<(u64, u64)>,
        must_multipart: bool,
        must_full: bool,
    },
}

/// What a request carrying only this Range header (and nothing that disables it) must get.
/// Returns the acceptable outcomes (more than one where the property leaves a choice).
pub fn expect(v: &[u8], len: u64) -> Option<Vec<Expect>> {
    match parse(v) {
        Parsed::Lenient => None,
        Parsed::Invalid | Parsed::OtherUnit => Some(vec![Expect::Full]),
        Parsed::Bytes {
            specs,
            beyond_u64,
            inverted,
        } => {
            if len == 0 {
                return None; // property says L > 0
            }
            let mut acc = vec![classify(resolve(&specs, len), len)];
            if beyond_u64 || inverted {
                acc.push(Expect::Full);
            }
            Some(acc)
        }
    }
}

pub fn classify(ranges: Vec<(u64, u64)>, len: u64) -> Expect {
    match ranges.len() {
        0 => Expect::Unsat,
        1 => Expect::Single(ranges[0].0, ranges[0].1),
        _ => {
            let sum: u128 = ranges.iter().map(|(a, b)| (*b - *a) as u128 + 1).sum();
            let with_overhead = sum + 80 * ranges.len() as u128;
            Expect::Multi {
                must_multipart: 2 * with_overhead < len as u128,
                must_full: sum >= len as u128,
                ranges,
            }
        }
    }
}

/// Parses `bytes a-b/L` or `bytes */L` exactly.
#[derive(Debug, PartialEq, Eq, Clone)]
pub enum ContentRange {
    Range(u64, u64, u64),
    Unsat(u64),
}

pub fn parse_content_range(v: &[u8]) -> Option<ContentRange> {
    fn strict_u64(s: &[u8]) -> Option<u64> {
        if s.is_empty() || s.len() > 20 || !s.iter().all(|c| c.is_ascii_digit()) {
            return None;
        }
        if s.len() > 1 && s[0] == b'0' {
            return None;
        }
        std::str::from_utf8(s).ok()?.parse().ok()
    }
    let rest = v.strip_prefix(b"bytes ")?;
    let slash = rest.iter().position(|&c| c == b'/')?;
    let total = strict_u64(&rest[slash + 1..])?;
    let r = &rest[..slash];
    if r == b"*" {
        return Some(ContentRange::Unsat(total));
    }
    let dash = r.iter().position(|&c| c == b'-')?;
    Some(ContentRange::Range(
        strict_u64(&r[..dash])?,
        strict_u64(&r[dash + 1..])?,
        total,
    ))
}

#[cfg(test)]
mod tests {
    use super::*;
    #[test]
    fn basics() {
        assert_eq!(expect(b"bytes=0-499", 10000), Some(vec![Expect::Single(0, 499)]));
        assert_eq!(expect(b"bytes=-500", 10000), Some(vec![Expect::Single(9500, 9999)]));
        assert_eq!(expect(b"bytes=-0", 10), Some(vec![Expect::Unsat]));
        assert_eq!(expect(b"bytes=-10", 10), Some(vec![Expect::Single(0, 9)]));
        assert_eq!(expect(b"bytes=-11", 10), Some(vec![Expect::Single(0, 9)]));
        assert_eq!(expect(b"bytes=+1-2", 10), Some(vec![Expect::Full]));
        assert_eq!(expect(b"bytes=1-2,", 10), None);
        assert_eq!(expect(b"bytes=1-2 ,3-4", 10), None);
        assert_eq!(expect(b"items=1-2", 10), Some(vec![Expect::Full]));
        assert_eq!(expect(b"bytes=0-18446744073709551615", 10), Some(vec![Expect::Single(0, 9)]));
        assert!(matches!(parse(b"bytes=0-18446744073709551616"), Parsed::Bytes { beyond_u64: true, .. }));
        assert_eq!(parse(b"bytes =1-2"), Parsed::Invalid);
        assert_eq!(parse(b"bytes=1-2-3"), Parsed::Invalid);
        assert_eq!(parse(b"bytes="), Parsed::Invalid);
        assert_eq!(parse(b"bytes=-"), Parsed::Invalid);
        assert_eq!(parse(b"Bytes=1-2"), Parsed::Lenient);
        assert_eq!(parse_content_range(b"bytes 1-2/10"), Some(ContentRange::Range(1, 2, 10)));
        assert_eq!(parse_content_range(b"bytes */10"), Some(ContentRange::Unsat(10)));
    }
}
