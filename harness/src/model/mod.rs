//! Reference models (oracles), written from the RFC text and the property statements.
//! Nothing here uses `http_serve`.
pub mod ae;
pub mod cond;
pub mod gz;
pub mod multipart;
pub mod range;
