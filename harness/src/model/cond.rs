//! RFC 7232 model: entity-tag lists, comparison functions, HTTP-dates, precondition evaluation.

#[derive(Clone, Debug, PartialEq, Eq)]
pub enum TagList {
    Star,
    /// Strictly formed list: tag *( "," OWS tag )
    Tags(Vec<Vec<u8>>),
    /// Parses only with recipient leniency (OWS before commas, empty elements): not judged.
    Lenient,
    Malformed,
}

/// Length of the entity-tag at the start of `s` (`[W/]"..."`, no escapes), if any.
fn tag_len(s: &[u8]) -> Option<usize> {
    let q = if s.starts_with(b"W/\"") {
        3
    } else if s.starts_with(b"\"") {
        1
    } else {
        return None;
    };
    s[q..].iter().position(|&c| c == b'"').map(|p| q + p + 1)
}

pub fn is_tag(s: &[u8]) -> bool {
    tag_len(s) == Some(s.len())
}

pub fn parse_tag_list(v: &[u8]) -> TagList {
    if v == b"*" {
        return TagList::Star;
    }
    // strict pass
    let mut tags = Vec::new();
    let mut s = v;
    let mut strict = true;
    loop {
        match tag_len(s) {
            None => {
                strict = false;
                break;
            }
            Some(n) => {
                tags.push(s[..n].to_vec());
                s = &s[n..];
            }
        }
        if s.is_empty() {
            break;
        }
        if s[0] != b',' {
            strict = false;
            break;
        }
        s = &s[1..];
        while let [b' ' | b'\t', r @ ..] = s {
            s = r;
        }
    }
    if strict {
        return TagList::Tags(tags);
    }
    // lenient pass: *( "," OWS ) tag *( OWS "," [ OWS tag ] )
    let mut s = v;
    let mut n = 0;
    loop {
        while let [b' ' | b'\t' | b',', r @ ..] = s {
            s = r;
        }
        if s.is_empty() {
            break;
        }
        match tag_len(s) {
            None => return TagList::Malformed,
            Some(l) => {
                n += 1;
                s = &s[l..];
                // after a tag must come OWS/comma or end
                if !s.is_empty() && !matches!(s[0], b' ' | b'\t' | b',') {
                    return TagList::Malformed;
                }
            }
        }
    }
    if n > 0 {
        TagList::Lenient
    } else {
        TagList::Malformed
    }
}

fn opaque(t: &[u8]) -> &[u8] {
    t.strip_prefix(b"W/").unwrap_or(t)
}

pub fn is_weak(t: &[u8]) -> bool {
    t.starts_with(b"W/")
}

pub fn strong_eq(a: &[u8], b: &[u8]) -> bool {
    !is_weak(a) && !is_weak(b) && a == b
}

pub fn weak_eq(a: &[u8], b: &[u8]) -> bool {
    opaque(a) == opaque(b)
}

#[derive(Clone, Copy, Debug, PartialEq, Eq)]
pub enum Outcome {
    PreconditionFailed,
    NotModified,
    Continue,
}

/// Evaluates the four conditional headers; `None` if the property does not judge this input
/// (malformed or lenient lists).
pub fn evaluate(
    etag: Option<&[u8]>,
    mtime_sec: Option<u64>,
    if_match: Option<&TagList>,
    if_none_match: Option<&TagList>,
    ims_sec: Option<u64>,
    ius_sec: Option<u64>,
) -> Option<Outcome> {
    for l in [if_match, if_none_match].into_iter().flatten() {
        if matches!(l, TagList::Lenient | TagList::Malformed) {
            return None;
        }
    }
    let pf = match if_match {
        Some(TagList::Star) => false,
        Some(TagList::Tags(ts)) => !ts.iter().any(|t| etag.is_some_and(|e| strong_eq(t, e))),
        Some(_) => unreachable!(),
        None => match (mtime_sec, ius_sec) {
            (Some(m), Some(u)) => u < m,
            _ => false,
        },
    };
    if pf {
        return Some(Outcome::PreconditionFailed);
    }
    let nm = match if_none_match {
        Some(TagList::Star) => true,
        Some(TagList::Tags(ts)) => ts.iter().any(|t| etag.is_some_and(|e| weak_eq(t, e))),
        Some(_) => unreachable!(),
        None => match (mtime_sec, ims_sec) {
            (Some(m), Some(s)) => m <= s,
            _ => false,
        },
    };
    Some(if nm { Outcome::NotModified } else { Outcome::Continue })
}

// ---- HTTP-date, independent of the `httpdate` crate -------------------------------------------

const DAYS: [&str; 7] = ["Thu", "Fri", "Sat", "Sun", "Mon", "Tue", "Wed"]; // 1970-01-01 = Thu
const LONG_DAYS: [&str; 7] = [
    "Thursday",
    "Friday",
    "Saturday",
    "Sunday",
    "Monday",
    "Tuesday",
    "Wednesday",
];
const MONTHS: [&str; 12] = [
    "Jan", "Feb", "Mar", "Apr", "May", "Jun", "Jul", "Aug", "Sep", "Oct", "Nov", "Dec",
];

/// (year, month 1..12, day 1..31) from days since 1970-01-01 (Howard Hinnant's algorithm).
fn civil_from_days(z: i64) -> (i64, u32, u32) {
    let z = z + 719_468;
    let era = z.div_euclid(146_097);
    let doe = z.rem_euclid(146_097);
    let yoe = (doe - doe / 1460 + doe / 36_524 - doe / 146_096) / 365;
    let y = yoe + era * 400;
    let doy = doe - (365 * yoe + yoe / 4 - yoe / 100);
    let mp = (5 * doy + 2) / 153;
    let d = (doy - (153 * mp + 2) / 5 + 1) as u32;
    let m = if mp < 10 { mp + 3 } else { mp - 9 } as u32;
    (if m <= 2 { y + 1 } else { y }, m, d)
}

fn days_from_civil(y: i64, m: u32, d: u32) -> i64 {
    let y = if m <= 2 { y - 1 } else { y };
    let era = y.div_euclid(400);
    let yoe = y.rem_euclid(400);
    let mp = if m > 2 { m - 3 } else { m + 9 } as i64;
    let doy = (153 * mp + 2) / 5 + d as i64 - 1;
    let doe = yoe * 365 + yoe / 4 - yoe / 100 + doy;
    era * 146_097 + doe - 719_468
}

#[derive(Clone, Copy, Debug, PartialEq, Eq, Hash)]
pub enum DateStyle {
    /// Sun, 06 Nov 1994 08:49:37 GMT
    Imf,
    /// Sunday, 06-Nov-94 08:49:37 GMT
    Rfc850,
    /// Sun Nov  6 08:49:37 1994
    Asctime,
}

pub fn fmt_date(secs: u64, style: DateStyle) -> String {
    let days = (secs / 86_400) as i64;
    let rem = secs % 86_400;
    let (h, mi, s) = (rem / 3600, rem % 3600 / 60, rem % 60);
    let (y, m, d) = civil_from_days(days);
    let wd = (days.rem_euclid(7)) as usize;
    match style {
        DateStyle::Imf => format!(
            "{}, {:02} {} {:04} {:02}:{:02}:{:02} GMT",
            DAYS[wd],
            d,
            MONTHS[m as usize - 1],
            y,
            h,
            mi,
            s
        ),
        DateStyle::Rfc850 => format!(
            "{}, {:02}-{}-{:02} {:02}:{:02}:{:02} GMT",
            LONG_DAYS[wd],
            d,
            MONTHS[m as usize - 1],
            y % 100,
            h,
            mi,
            s
        ),
        DateStyle::Asctime => format!(
            "{} {} {:>2} {:02}:{:02}:{:02} {:04}",
            DAYS[wd],
            MONTHS[m as usize - 1],
            d,
            h,
            mi,
            s,
            y
        ),
    }
}

/// Strict IMF-fixdate parser (what a response's Date / Last-Modified must be).
pub fn parse_imf(v: &[u8]) -> Option<u64> {
    let s = std::str::from_utf8(v).ok()?;
    if s.len() != 29 || !s.ends_with(" GMT") {
        return None;
    }
    let b = s.as_bytes();
    if &b[3..5] != b", " || b[7] != b' ' || b[11] != b' ' || b[16] != b' ' || b[19] != b':' || b[22] != b':' {
        return None;
    }
    let n = |r: std::ops::Range<usize>| -> Option<u64> {
        let t = &s[r];
        if t.bytes().all(|c| c.is_ascii_digit()) {
            t.parse().ok()
        } else {
            None
        }
    };
    let d = n(5..7)? as u32;
    let m = MONTHS.iter().position(|x| *x == &s[8..11])? as u32 + 1;
    let y = n(12..16)? as i64;
    let (h, mi, sec) = (n(17..19)?, n(20..22)?, n(23..25)?);
    if d == 0 || d > 31 || h > 23 || mi > 59 || sec > 60 {
        return None;
    }
    let days = days_from_civil(y, m, d);
    if days < 0 {
        return None;
    }
    let t = days as u64 * 86_400 + h * 3600 + mi * 60 + sec;
    // weekday must agree
    if DAYS[(days.rem_euclid(7)) as usize] != &s[0..3] {
        return None;
    }
    Some(t)
}

#[cfg(test)]
mod tests {
    use super::*;
    #[test]
    fn dates() {
        assert_eq!(fmt_date(784_111_777, DateStyle::Imf), "Sun, 06 Nov 1994 08:49:37 GMT");
        assert_eq!(fmt_date(784_111_777, DateStyle::Rfc850), "Sunday, 06-Nov-94 08:49:37 GMT");
        assert_eq!(fmt_date(784_111_777, DateStyle::Asctime), "Sun Nov  6 08:49:37 1994");
        assert_eq!(parse_imf(b"Sun, 06 Nov 1994 08:49:37 GMT"), Some(784_111_777));
        for t in [0u64, 1, 86_399, 86_400, 951_782_400, 1_709_164_800, 4_102_444_800, 253_402_300_799] {
            assert_eq!(parse_imf(fmt_date(t, DateStyle::Imf).as_bytes()), Some(t));
            // cross-check with the httpdate crate (a dependency, not code under test)
            let st = std::time::UNIX_EPOCH + std::time::Duration::from_secs(t);
            assert_eq!(httpdate::fmt_http_date(st), fmt_date(t, DateStyle::Imf));
            for st2 in [DateStyle::Rfc850, DateStyle::Asctime] {
                if (631_152_000..2_524_608_000).contains(&t) || st2 == DateStyle::Asctime {
                    assert_eq!(httpdate::parse_http_date(&fmt_date(t, st2)).ok(), Some(st), "{}", fmt_date(t, st2));
                }
            }
        }
    }
    #[test]
    fn lists() {
        assert_eq!(parse_tag_list(b"*"), TagList::Star);
        assert_eq!(
            parse_tag_list(b"\"a, b\", W/\"c\""),
            TagList::Tags(vec![b"\"a, b\"".to_vec(), b"W/\"c\"".to_vec()])
        );
        assert_eq!(parse_tag_list(b"\"a\" , \"b\""), TagList::Lenient);
        assert_eq!(parse_tag_list(b"\"a\",,\"b\""), TagList::Lenient);
        assert_eq!(parse_tag_list(b"\"a\"x"), TagList::Malformed);
        assert_eq!(parse_tag_list(b"foo"), TagList::Malformed);
        assert_eq!(parse_tag_list(b""), TagList::Malformed);
    }
}
