//! gzip (RFC 1952) member reader: own header/trailer parser and CRC-32; the deflate stream is
//! inflated with flate2's raw `Decompress` (the inflate half of miniz_oxide, a different code
//! path from the encoder under test). The thorough tier re-checks recorded streams with
//! Python's zlib, which shares no code with either.

use flate2::{Decompress, FlushDecompress, Status};

pub fn crc32(data: &[u8]) -> u32 {
    // bitwise, table-free; the payloads are small
    let mut table = [0u32; 256];
    for (i, t) in table.iter_mut().enumerate() {
        let mut c = i as u32;
        for _ in 0..8 {
            c = if c & 1 != 0 { 0xEDB8_8320 ^ (c >> 1) } else { c >> 1 };
        }
        *t = c;
    }
    let mut c = 0xFFFF_FFFFu32;
    for b in data {
        c = table[((c ^ *b as u32) & 0xFF) as usize] ^ (c >> 8);
    }
    c ^ 0xFFFF_FFFF
}

/// Length of the gzip header at the start of `b`; Ok(None) if `b` is too short to tell.
pub fn header_len(b: &[u8]) -> Result<Option<usize>, String> {
    let fixed = [0x1f, 0x8b, 8];
    for (i, want) in fixed.iter().enumerate() {
        match b.get(i) {
            None => return Ok(None),
            Some(x) if x != want => return Err(format!("gzip header byte {} is {:#x}, expected {:#x}", i, x, want)),
            _ => {}
        }
    }
    if b.len() < 10 {
        return Ok(None);
    }
    let flg = b[3];
    if flg & 0xE0 != 0 {
        return Err(format!("reserved FLG bits set: {:#x}", flg));
    }
    let mut p = 10;
    if flg & 4 != 0 {
        if b.len() < p + 2 {
            return Ok(None);
        }
        let xlen = b[p] as usize | (b[p + 1] as usize) << 8;
        p += 2 + xlen;
        if b.len() < p {
            return Ok(None);
        }
    }
    for bit in [8u8, 16] {
        if flg & bit != 0 {
            match b[p.min(b.len())..].iter().position(|&c| c == 0) {
                None => return Ok(None),
                Some(z) => p += z + 1,
            }
        }
    }
    if flg & 2 != 0 {
        p += 2;
        if b.len() < p {
            return Ok(None);
        }
    }
    Ok(Some(p))
}

pub struct Inflated {
    pub data: Vec<u8>,
    /// deflate stream reached its final block
    pub finished: bool,
    /// bytes of `input` consumed by the deflate stream
    pub consumed: usize,
}

pub fn raw_inflate(input: &[u8]) -> Result<Inflated, String> {
    let mut d = Decompress::new(false);
    let mut out: Vec<u8> = Vec::with_capacity(input.len() * 3 + 64);
    loop {
        let before_in = d.total_in();
        let before_out = d.total_out();
        if out.capacity() - out.len() < 4096 {
            out.reserve(out.capacity().max(4096));
        }
        let st = d
            .decompress_vec(&input[d.total_in() as usize..], &mut out, FlushDecompress::None)
            .map_err(|e| format!("inflate error after {} bytes in / {} out: {}", d.total_in(), d.total_out(), e))?;
        match st {
            Status::StreamEnd => {
                return Ok(Inflated { data: out, finished: true, consumed: d.total_in() as usize });
            }
            Status::Ok | Status::BufError => {
                let progressed = d.total_in() != before_in || d.total_out() != before_out;
                if !progressed && out.capacity() - out.len() >= 4096 {
                    return Ok(Inflated { data: out, finished: false, consumed: d.total_in() as usize });
                }
            }
        }
    }
}

/// `buf` must be exactly one gzip member; returns the decompressed data.
pub fn parse_member(buf: &[u8]) -> Result<Vec<u8>, String> {
    let h = header_len(buf)?.ok_or_else(|| format!("truncated gzip header ({} bytes)", buf.len()))?;
    let inf = raw_inflate(&buf[h..])?;
    if !inf.finished {
        return Err(format!("deflate stream not terminated (decoded {} bytes)", inf.data.len()));
    }
    let t = h + inf.consumed;
    let trailer = &buf[t..];
    if trailer.len() < 8 {
        return Err(format!("trailer truncated: {} bytes", trailer.len()));
    }
    if trailer.len() > 8 {
        return Err(format!("{} trailing bytes after the gzip member", trailer.len() - 8));
    }
    let crc = u32::from_le_bytes([trailer[0], trailer[1], trailer[2], trailer[3]]);
    let isize = u32::from_le_bytes([trailer[4], trailer[5], trailer[6], trailer[7]]);
    if crc != crc32(&inf.data) {
        return Err(format!("CRC-32 mismatch: trailer {:#x}, data {:#x}", crc, crc32(&inf.data)));
    }
    if isize != inf.data.len() as u32 {
        return Err(format!("ISIZE mismatch: trailer {}, data {}", isize, inf.data.len()));
    }
    Ok(inf.data)
}

/// Streaming view: everything a decoder can reproduce from the prefix `buf`.
pub fn inflate_prefix(buf: &[u8]) -> Result<Vec<u8>, String> {
    match header_len(buf)? {
        None => Ok(Vec::new()),
        Some(h) => Ok(raw_inflate(&buf[h..])?.data),
    }
}

#[cfg(test)]
mod tests {
    use super::*;
    use std::io::Write;
    #[test]
    fn roundtrip() {
        assert_eq!(crc32(b"123456789"), 0xCBF4_3926);
        let mut e = flate2::write::GzEncoder::new(Vec::new(), flate2::Compression::new(6));
        e.write_all(b"hello hello hello").unwrap();
        e.flush().unwrap();
        let mid = e.get_ref().clone();
        assert_eq!(inflate_prefix(&mid).unwrap(), b"hello hello hello");
        e.write_all(b" world").unwrap();
        let all = e.finish().unwrap();
        assert_eq!(parse_member(&all).unwrap(), b"hello hello hello world");
        let mut bad = all.clone();
        bad.push(0);
        assert!(parse_member(&bad).is_err());
        let n = all.len();
        let mut bad = all.clone();
        bad[n - 1] ^= 1;
        assert!(parse_member(&bad).is_err());
        assert!(parse_member(&all[..n - 1]).is_err());
        for cut in 0..n {
            inflate_prefix(&all[..cut]).unwrap();
        }
    }
}
