//! multipart/byteranges reader (RFC 7233 appendix A / RFC 2046), length-driven: part data is
//! delimited by the part's own Content-Range, never by searching for the boundary.

use super::range::{parse_content_range, ContentRange};

#[derive(Clone, Debug)]
pub struct Part {
    pub first: u64,
    pub last: u64,
    pub total: u64,
    /// header lines other than Content-Range: (lower-case name, value)
    pub hdrs: Vec<(String, Vec<u8>)>,
    /// offset of the part's delimiter in the body
    pub start_off: usize,
    /// offset of the part's data in the body
    pub data_off: usize,
    /// data bytes present in the examined body (== last-first+1 unless truncated)
    pub data_present: usize,
    /// the part's delimiter lacked the leading CRLF (allowed for the first part only)
    pub short_delim: bool,
}

#[derive(Clone, Debug)]
pub struct Parsed {
    pub parts: Vec<Part>,
    /// the closing delimiter was read and nothing follows it
    pub closed: bool,
    /// body prefix ended inside a part (only for incomplete bodies)
    pub truncated: bool,
    pub close_len: usize,
}

/// Extracts the boundary from `multipart/byteranges; boundary=...`.
pub fn boundary_of(ct: &[u8]) -> Option<Vec<u8>> {
    let s = std::str::from_utf8(ct).ok()?;
    let (ty, params) = s.split_once(';')?;
    if !ty.trim().eq_ignore_ascii_case("multipart/byteranges") {
        return None;
    }
    for p in params.split(';') {
        let (k, v) = match p.split_once('=') {
            Some(kv) => kv,
            None => continue,
        };
        if k.trim().eq_ignore_ascii_case("boundary") {
            let v = v.trim();
            let v = if v.len() >= 2 && v.starts_with('"') && v.ends_with('"') {
                &v[1..v.len() - 1]
            } else {
                v
            };
            // RFC 2046: 1..70 bchars, not ending in space
            let ok = !v.is_empty()
                && v.len() <= 70
                && !v.ends_with(' ')
                && v.bytes().all(|c| c.is_ascii_alphanumeric() || b"'()+_,-./:=? ".contains(&c));
            return if ok { Some(v.as_bytes().to_vec()) } else { None };
        }
    }
    None
}

fn find_crlf(b: &[u8], from: usize) -> Option<usize> {
    (from..b.len().saturating_sub(1)).find(|&i| b[i] == b'\r' && b[i + 1] == b'\n')
}

/// Parses `body`. `complete` = the whole body is present (otherwise a drained prefix).
pub fn parse(body: &[u8], boundary: &[u8], complete: bool) -> Result<Parsed, String> {
    let mut p = 0usize;
    let mut parts = Vec::new();
    let mut delim = Vec::from(&b"\r\n--"[..]);
    delim.extend_from_slice(boundary);
    loop {
        let start_off = p;
        // delimiter; the very first may omit its leading CRLF
        let rest = &body[p..];
        let mut short_delim = false;
        if rest.starts_with(&delim) {
            p += delim.len();
        } else if parts.is_empty() && rest.starts_with(&delim[2..]) {
            short_delim = true;
            p += delim.len() - 2;
        } else if !complete && (delim.starts_with(rest) || (parts.is_empty() && delim[2..].starts_with(rest))) {
            return Ok(Parsed { parts, closed: false, truncated: true, close_len: 0 });
        } else {
            return Err(format!(
                "offset {}: expected delimiter, found {:?}",
                p,
                crate::util::show(&rest[..rest.len().min(24)])
            ));
        }
        let rest = &body[p..];
        if rest.starts_with(b"--") {
            // closing delimiter: "--" CRLF then end
            if rest == b"--\r\n" {
                let close_len = body.len() - start_off;
                return Ok(Parsed { parts, closed: true, truncated: false, close_len });
            }
            if !complete && b"--\r\n".starts_with(rest) {
                return Ok(Parsed { parts, closed: false, truncated: true, close_len: 0 });
            }
            return Err(format!("offset {}: bytes after the closing delimiter or malformed close: {:?}", p, crate::util::show(&rest[..rest.len().min(24)])));
        }
        if !rest.starts_with(b"\r\n") {
            if !complete && rest.len() < 2 {
                return Ok(Parsed { parts, closed: false, truncated: true, close_len: 0 });
            }
            return Err(format!("offset {}: delimiter line not terminated by CRLF", p));
        }
        p += 2;
        // header lines
        let mut cr: Option<(u64, u64, u64)> = None;
        let mut hdrs = Vec::new();
        loop {
            let e = match find_crlf(body, p) {
                Some(e) => e,
                None => {
                    if !complete {
                        return Ok(Parsed { parts, closed: false, truncated: true, close_len: 0 });
                    }
                    return Err(format!("offset {}: unterminated header line", p));
                }
            };
            let line = &body[p..e];
            p = e + 2;
            if line.is_empty() {
                break;
            }
            let c = line
                .iter()
                .position(|&c| c == b':')
                .ok_or_else(|| format!("part header line without colon: {:?}", crate::util::show(line)))?;
            let name = std::str::from_utf8(&line[..c])
                .map_err(|_| "non-UTF8 header name".to_string())?
                .to_ascii_lowercase();
            if name.is_empty() || name.bytes().any(|c| c == b' ' || c == b'\t') {
                return Err(format!("bad part header name {:?}", name));
            }
            let mut v = &line[c + 1..];
            while let [b' ' | b'\t', r @ ..] = v {
                v = r;
            }
            while let [r @ .., b' ' | b'\t'] = v {
                v = r;
            }
            if name == "content-range" {
                if cr.is_some() {
                    return Err("two Content-Range lines in one part".into());
                }
                match parse_content_range(v) {
                    Some(ContentRange::Range(a, b, l)) if a <= b && b < l => cr = Some((a, b, l)),
                    _ => return Err(format!("bad part Content-Range {:?}", crate::util::show(v))),
                }
            } else {
                hdrs.push((name, v.to_vec()));
            }
        }
        let (a, b, l) = cr.ok_or("part without Content-Range")?;
        let want = (b - a) as u128 + 1;
        let avail = body.len() - p;
        if (avail as u128) < want {
            if complete {
                return Err(format!("part {}-{} data runs past the end of the body", a, b));
            }
            parts.push(Part { first: a, last: b, total: l, hdrs, start_off, data_off: p, data_present: avail, short_delim });
            return Ok(Parsed { parts, closed: false, truncated: true, close_len: 0 });
        }
        parts.push(Part { first: a, last: b, total: l, hdrs, start_off, data_off: p, data_present: want as usize, short_delim });
        p += want as usize;
        if p == body.len() && !complete {
            return Ok(Parsed { parts, closed: false, truncated: true, close_len: 0 });
        }
    }
}

fn digits(n: u64) -> u128 {
    n.to_string().len() as u128
}

/// Total body length implied by the format of the first parsed part, for `ranges` — used when a
/// giant body cannot be drained. `first` must be the parse of a prefix containing part 0's
/// headers.
pub fn implied_total(first: &Part, ranges: &[(u64, u64)], boundary_len: usize) -> u128 {
    let hdr0 = (first.data_off - first.start_off) as u128;
    let base = hdr0 - digits(first.first) - digits(first.last);
    let mut t: u128 = 0;
    for (i, (a, b)) in ranges.iter().enumerate() {
        t += base + digits(*a) + digits(*b) + (*b - *a) as u128 + 1;
        if i > 0 && first.short_delim {
            t += 2; // only the very first delimiter may omit its leading CRLF
        }
    }
    t + 2 + 2 + boundary_len as u128 + 2 + 2
}
