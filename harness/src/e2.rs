//! Engine E2: `streaming_body(..).build()` driven by an operation sequence on one thread,
//! recording every result at the producer and consumer boundary.

use crate::bodymon::{poll_once, CountWaker, Ev};
use crate::ent::BoxError;
use bytes::Bytes;
use http_body::Body as _;
use serde_json::{json, Value};
use std::io::Write;
use std::sync::atomic::AtomicU64;
use std::sync::Arc;
use std::task::{Context, Waker};

pub type SBody = http_serve::Body<Bytes, BoxError>;
pub type SWriter = http_serve::BodyWriter<Bytes, BoxError>;

#[derive(Clone, Debug, PartialEq, Eq, Hash)]
pub enum Op {
    /// one `write` call offering n bytes
    Write(u32),
    /// `write_all` of n bytes
    WriteAll(u32),
    /// one `write_vectored` call offering slices of these lengths
    WriteV(Vec<u32>),
    /// one `write!` call whose 1..=4 string arguments have these lengths (literal pieces between them)
    WriteFmt(Vec<u32>),
    Flush,
    PollOnce,
    /// poll until Pending or a terminal event
    PollAll,
    Abort,
    DropBody,
    /// drop the writer (implicit at the end of every sequence)
    DropWriter,
}

impl Op {
    pub fn to_json(&self) -> Value {
        match self {
            Op::Write(n) => json!({ "write": n }),
            Op::WriteAll(n) => json!({ "write_all": n }),
            Op::WriteV(ns) => json!({ "write_vectored": ns }),
            Op::WriteFmt(ns) => json!({ "write_fmt": ns }),
            Op::Flush => json!("flush"),
            Op::PollOnce => json!("poll"),
            Op::PollAll => json!("poll_until_pending"),
            Op::Abort => json!("abort"),
            Op::DropBody => json!("drop_body"),
            Op::DropWriter => json!("drop_writer"),
        }
    }
    pub fn from_json(v: &Value) -> Op {
        if let Some(n) = v.get("write") {
            return Op::Write(n.as_u64().unwrap_or(0) as u32);
        }
        if let Some(n) = v.get("write_all") {
            return Op::WriteAll(n.as_u64().unwrap_or(0) as u32);
        }
        if let Some(ns) = v.get("write_fmt").and_then(|x| x.as_array()) {
            return Op::WriteFmt(ns.iter().map(|n| n.as_u64().unwrap_or(0) as u32).collect());
        }
        if let Some(ns) = v.get("write_vectored").and_then(|x| x.as_array()) {
            return Op::WriteV(ns.iter().map(|n| n.as_u64().unwrap_or(0) as u32).collect());
        }
        match v.as_str().unwrap_or("") {
            "flush" => Op::Flush,
            "poll" => Op::PollOnce,
            "poll_until_pending" => Op::PollAll,
            "abort" => Op::Abort,
            "drop_body" => Op::DropBody,
            _ => Op::DropWriter,
        }
    }
}

#[derive(Clone, Copy, Debug, PartialEq, Eq, Hash)]
pub enum Payload {
    /// position hash: incompressible, every byte identifies its offset neighbourhood
    Hash,
    Zeros,
    Text,
}

#[derive(Clone, Debug, PartialEq, Eq, Hash)]
pub struct StreamCase {
    pub method: String,
    /// Accept-Encoding request header, if any
    pub accept_encoding: Option<Vec<u8>>,
    pub chunk: usize,
    /// None = builder default
    pub gzip_level: Option<u32>,
    /// request passed as `http::request::Parts` instead of `Request`
    pub via_parts: bool,
    pub payload: Payload,
    pub ops: Vec<Op>,
    pub extra_polls: usize,
    /// present a brand-new (non-equivalent) waker on every poll instead of the same one
    pub fresh_wakers: bool,
    /// another stream with the same configuration is built, used and abandoned on this thread
    /// first: 0 none, 1 write + abort, 2 write + flush + abort, 3 body dropped, then write + flush,
    /// 4 writer dropped with unflushed data and the body never polled, 5 write + flush, half drained
    pub prelude: u8,
    /// extra builder calls before the final configuration is set (the last call of each setter
    /// counts): 0 none, 1 level 0 and chunk size 1 first, 2 level 9 and 64 KiB first, 3 the final
    /// settings applied twice. 1 and 2 only when the case sets a level itself.
    pub builder_detour: u8,
    /// request headers that have nothing to do with the coding decision (index into NOISE_HEADERS;
    /// 0 = none)
    pub noise: u8,
    /// request version, as `ServeCase::version`
    pub version: u8,
}

/// Request header sets that must not influence `streaming_body`.
pub const NOISE_HEADERS: [&[(&str, &str)]; 6] = [
    &[],
    &[("cache-control", "no-transform")],
    &[("cache-control", "no-cache, no-store"), ("pragma", "no-cache"), ("connection", "close")],
    &[("range", "bytes=0-9"), ("if-none-match", "*"), ("te", "trailers, deflate")],
    &[("accept", "*/*"), ("content-encoding", "gzip"), ("transfer-encoding", "chunked"), ("content-length", "0")],
    &[("accept-language", "en"), ("user-agent", "Mozilla/4.0 (compatible; MSIE 6.0)"), ("x-forwarded-proto", "https"), ("cache-control", "max-age=0, No-Transform")],
];

impl StreamCase {
    pub fn raw(chunk: usize, ops: Vec<Op>) -> StreamCase {
        StreamCase { method: "GET".into(), accept_encoding: None, chunk, gzip_level: None, via_parts: false, payload: Payload::Hash, ops, extra_polls: 2, fresh_wakers: false, prelude: 0, builder_detour: 0, noise: 0, version: 0 }
    }
    pub fn gzip(chunk: usize, level: u32, ops: Vec<Op>) -> StreamCase {
        StreamCase { method: "GET".into(), accept_encoding: Some(b"gzip".to_vec()), chunk, gzip_level: Some(level), via_parts: false, payload: Payload::Hash, ops, extra_polls: 2, fresh_wakers: false, prelude: 0, builder_detour: 0, noise: 0, version: 0 }
    }
    pub fn to_json(&self) -> Value {
        json!({
            "method": self.method,
            "accept_encoding": self.accept_encoding.as_ref().map(|v| crate::util::bytes_to_json(v)),
            "chunk": self.chunk,
            "gzip_level": self.gzip_level,
            "via_parts": self.via_parts,
            "payload": match self.payload { Payload::Hash => "hash", Payload::Zeros => "zeros", Payload::Text => "text" },
            "ops": self.ops.iter().map(|o| o.to_json()).collect::<Vec<_>>(),
            "extra_polls": self.extra_polls,
            "fresh_wakers": self.fresh_wakers,
            "prelude": self.prelude,
            "builder_detour": self.builder_detour,
            "noise": self.noise,
            "version": self.version,
        })
    }
    pub fn from_json(v: &Value) -> StreamCase {
        StreamCase {
            method: v["method"].as_str().unwrap_or("GET").into(),
            accept_encoding: match &v["accept_encoding"] {
                Value::Null => None,
                x => Some(crate::util::bytes_from_json(x)),
            },
            chunk: v["chunk"].as_u64().unwrap_or(4) as usize,
            gzip_level: v["gzip_level"].as_u64().map(|x| x as u32),
            via_parts: v["via_parts"].as_bool().unwrap_or(false),
            payload: match v["payload"].as_str().unwrap_or("hash") {
                "zeros" => Payload::Zeros,
                "text" => Payload::Text,
                _ => Payload::Hash,
            },
            ops: v["ops"].as_array().map(|a| a.iter().map(Op::from_json).collect()).unwrap_or_default(),
            extra_polls: v["extra_polls"].as_u64().unwrap_or(2) as usize,
            fresh_wakers: v["fresh_wakers"].as_bool().unwrap_or(false),
            prelude: v["prelude"].as_u64().unwrap_or(0) as u8,
            builder_detour: v["builder_detour"].as_u64().unwrap_or(0) as u8,
            noise: v["noise"].as_u64().unwrap_or(0) as u8,
            version: v["version"].as_u64().unwrap_or(0) as u8,
        }
    }
}

pub fn payload_byte(p: Payload, k: u64) -> u8 {
    match p {
        Payload::Hash => crate::ent::content_byte(k ^ 0xABCD),
        Payload::Zeros => 0,
        Payload::Text => b"the quick brown fox jumps over the lazy dog. "[(k % 45) as usize],
    }
}

pub fn payload(p: Payload, start: u64, n: usize) -> Vec<u8> {
    (0..n as u64).map(|i| payload_byte(p, start + i)).collect()
}

#[derive(Clone, Debug)]
pub struct PollRec {
    pub lower: u64,
    pub upper: Option<u64>,
    pub is_end: bool,
    pub ev: Ev,
    /// bytes delivered before this poll
    pub before: u64,
}

#[derive(Clone, Debug)]
pub enum Res {
    Write { offered: u32, res: Result<usize, String> },
    Unit(Result<(), String>),
    Polls(Vec<PollRec>),
    Done,
    /// operation impossible in the current state (e.g. poll after the body was dropped)
    Skipped,
    Panic(String),
}

#[derive(Clone, Debug)]
pub struct StepRec {
    pub op: Op,
    pub res: Res,
    /// plaintext bytes accepted by the writer after this step
    pub accepted: u64,
    /// body bytes delivered to the consumer after this step
    pub delivered: u64,
    /// live heap bytes of this thread after the step (counting allocator)
    pub live_heap: i64,
}

#[derive(Clone, Debug)]
pub struct StreamObs {
    pub status: u16,
    pub hdrs: Vec<(String, Vec<u8>)>,
    pub writer_returned: bool,
    pub steps: Vec<StepRec>,
    /// plaintext accepted by write/write_all, in order
    pub accepted: Vec<u8>,
    /// concatenation of all data frames
    pub delivered: Vec<u8>,
    pub build_panic: Option<String>,
    pub wakes: u64,
    /// a poll returned something other than Pending although the waker registered by the
    /// preceding Pending poll had not been woken since (the task would still be asleep)
    pub lost_wake: Option<String>,
    /// polls that returned Pending and were later followed by a non-Pending poll
    pub park_wake_pairs: u64,
    pub empty_frames: u64,
    /// the harness's own poll budget ran out: nothing may be concluded from this run
    pub poll_limit_hit: bool,
}

impl StreamObs {
    pub fn hdr(&self, name: &str) -> Option<&[u8]> {
        self.hdrs.iter().find(|(k, _)| k == name).map(|(_, v)| &v[..])
    }
    pub fn all_polls(&self) -> impl Iterator<Item = &PollRec> {
        self.steps.iter().flat_map(|s| match &s.res {
            Res::Polls(p) => p.iter(),
            _ => [].iter(),
        })
    }
    pub fn to_json(&self) -> Value {
        let steps: Vec<Value> = self
            .steps
            .iter()
            .take(40)
            .map(|s| {
                json!({
                    "op": s.op.to_json(),
                    "res": match &s.res {
                        Res::Write { offered, res } => json!({"offered": offered, "res": format!("{:?}", res)}),
                        Res::Unit(r) => json!(format!("{:?}", r)),
                        Res::Polls(p) => json!(p.iter().take(12).map(|p| json!({"hint": [p.lower, p.upper], "is_end": p.is_end, "ev": format!("{:?}", p.ev)})).collect::<Vec<_>>()),
                        Res::Done => json!("done"),
                        Res::Skipped => json!("skipped"),
                        Res::Panic(p) => json!({"panic": p}),
                    },
                    "accepted": s.accepted, "delivered": s.delivered,
                })
            })
            .collect();
        json!({
            "status": self.status,
            "hdrs": self.hdrs.iter().map(|(k, v)| json!([k, crate::util::bytes_to_json(v)])).collect::<Vec<_>>(),
            "writer_returned": self.writer_returned,
            "steps": steps,
            "accepted_total": self.accepted.len(),
            "delivered_total": self.delivered.len(),
            "lost_wake": self.lost_wake,
        })
    }
}

pub fn build(case: &StreamCase) -> Option<(http::Response<SBody>, Option<SWriter>)> {
    let mut req = http::Request::builder().method(http::Method::from_bytes(case.method.as_bytes()).ok()?).uri("/").body(()).ok()?;
    if let Some(ae) = &case.accept_encoding {
        req.headers_mut().insert(http::header::ACCEPT_ENCODING, http::HeaderValue::from_bytes(ae).ok()?);
    }
    *req.version_mut() = crate::e1::version_of(case.version);
    for (k, v) in NOISE_HEADERS[case.noise as usize % NOISE_HEADERS.len()] {
        req.headers_mut().append(http::HeaderName::from_bytes(k.as_bytes()).ok()?, http::HeaderValue::from_str(v).ok()?);
    }
    let mut b = if case.via_parts {
        let (parts, _) = req.into_parts();
        http_serve::streaming_body(&parts)
    } else {
        http_serve::streaming_body(&req)
    };
    match (case.builder_detour, case.gzip_level) {
        (1, Some(_)) => b = b.with_gzip_level(0).with_chunk_size(1),
        (2, Some(_)) => b = b.with_chunk_size(65_536).with_gzip_level(9),
        (3, l) => {
            b = b.with_chunk_size(case.chunk);
            if let Some(l) = l {
                b = b.with_gzip_level(l);
            }
        }
        _ => {}
    }
    b = b.with_chunk_size(case.chunk);
    if let Some(l) = case.gzip_level {
        b = b.with_gzip_level(l);
    }
    Some(b.build::<Bytes, BoxError>())
}

/// The stream that precedes the case on this thread (see `StreamCase::prelude`). Whatever it
/// does must leave no trace in the stream that follows.
fn run_prelude(case: &StreamCase) {
    let _ = crate::util::catch(|| {
        let (resp, writer) = match build(case) {
            Some(b) => b,
            None => return,
        };
        let (_, body) = resp.into_parts();
        let mut body = Some(Box::pin(body));
        let mut writer = match writer {
            Some(w) => w,
            None => return,
        };
        let text = payload(Payload::Text, 7, 1500);
        let w = Waker::from(Arc::new(CountWaker(AtomicU64::new(0))));
        let mut cx = Context::from_waker(&w);
        match case.prelude {
            1 => {
                let _ = writer.write_all(&text);
                writer.abort("prelude abort".into());
            }
            2 => {
                let _ = writer.write_all(&text);
                let _ = writer.flush();
                let _ = writer.write_all(&text[..700]);
                writer.abort("prelude abort".into());
            }
            3 => {
                let _ = writer.write_all(&text[..300]);
                drop(body.take());
                let _ = writer.write_all(&text);
                let _ = writer.flush();
            }
            4 => {
                let _ = writer.write_all(&text);
            }
            _ => {
                let _ = writer.write_all(&text);
                let _ = writer.flush();
                if let Some(b) = body.as_mut() {
                    let _ = poll_once(b, &mut cx);
                }
            }
        }
        drop(writer);
        drop(body);
    });
}

/// Runs the sequence; appends an implicit `DropWriter` and a final drain (+ extra polls).
pub fn run_stream(case: &StreamCase) -> Option<StreamObs> {
    if case.prelude != 0 {
        run_prelude(case);
    }
    let built = match crate::util::catch(|| build(case)) {
        Ok(Some(b)) => b,
        Ok(None) => return None,
        Err(p) => {
            return Some(StreamObs { status: 0, hdrs: vec![], writer_returned: false, steps: vec![], accepted: vec![], delivered: vec![], build_panic: Some(p), wakes: 0, lost_wake: None, park_wake_pairs: 0, empty_frames: 0, poll_limit_hit: false })
        }
    };
    let (resp, writer) = built;
    let (parts, body) = resp.into_parts();
    let mut obs = StreamObs {
        status: parts.status.as_u16(),
        hdrs: parts.headers.iter().map(|(k, v)| (k.as_str().to_string(), v.as_bytes().to_vec())).collect(),
        writer_returned: writer.is_some(),
        steps: Vec::new(),
        accepted: Vec::new(),
        delivered: Vec::new(),
        build_panic: None,
        wakes: 0,
        lost_wake: None,
        park_wake_pairs: 0,
        empty_frames: 0,
        poll_limit_hit: false,
    };
    let cw = Arc::new(CountWaker(AtomicU64::new(0)));
    let waker = Waker::from(cw.clone());
    let mut cx = Context::from_waker(&waker);
    let mut body = Some(Box::pin(body));
    let mut writer = writer;
    let mut terminal_seen = false;
    let mut poll_limit_hit = false;
    let mut extra_left = case.extra_polls;
    // the waker of the most recent poll, if that poll returned Pending, and its wake count then
    let mut parked: Option<(Arc<CountWaker>, u64)> = None;
    let mut ops = case.ops.clone();
    if !ops.contains(&Op::DropWriter) {
        ops.push(Op::DropWriter);
    }
    ops.push(Op::PollAll); // final drain
    for op in ops.into_iter() {
        let res = crate::util::catch(|| -> Res {
            match &op {
                Op::Write(n) => match writer.as_mut() {
                    None => Res::Skipped,
                    Some(w) => {
                        let buf = payload(case.payload, obs.accepted.len() as u64, *n as usize);
                        let r = w.write(&buf);
                        if let Ok(m) = &r {
                            let m = (*m).min(buf.len());
                            obs.accepted.extend_from_slice(&buf[..m]);
                        }
                        Res::Write { offered: *n, res: r.map_err(|e| format!("{:?}", e.kind())) }
                    }
                },
                Op::WriteFmt(ns) => match writer.as_mut() {
                    None => Res::Skipped,
                    Some(w) => {
                        // string arguments: the payload bytes folded into ASCII letters
                        let mut args: Vec<String> = Vec::new();
                        let mut at = obs.accepted.len() as u64;
                        for n in ns.iter().take(4) {
                            let raw = payload(case.payload, at, *n as usize);
                            args.push(raw.iter().map(|b| (b'a' + b % 26) as char).collect());
                            at += *n as u64 + 1;
                        }
                        let expected: String = match args.len() {
                            0 => "<>".to_string(),
                            1 => format!("<{}>", args[0]),
                            2 => format!("<{}|{}>", args[0], args[1]),
                            3 => format!("<{}|{}|{}>", args[0], args[1], args[2]),
                            _ => format!("{}{}|{}>{}", args[0], args[1], args[2], args[3]),
                        };
                        let r = match args.len() {
                            0 => write!(w, "<>"),
                            1 => write!(w, "<{}>", args[0]),
                            2 => write!(w, "<{}|{}>", args[0], args[1]),
                            3 => write!(w, "<{}|{}|{}>", args[0], args[1], args[2]),
                            _ => write!(w, "{}{}|{}>{}", args[0], args[1], args[2], args[3]),
                        };
                        if r.is_ok() {
                            obs.accepted.extend_from_slice(expected.as_bytes());
                        }
                        Res::Unit(r.map_err(|e| format!("{:?}", e.kind())))
                    }
                },
                Op::WriteV(ns) => match writer.as_mut() {
                    None => Res::Skipped,
                    Some(w) => {
                        let total: usize = ns.iter().map(|n| *n as usize).sum();
                        let buf = payload(case.payload, obs.accepted.len() as u64, total);
                        let mut slices = Vec::with_capacity(ns.len());
                        let mut off = 0usize;
                        for n in ns {
                            slices.push(std::io::IoSlice::new(&buf[off..off + *n as usize]));
                            off += *n as usize;
                        }
                        let r = w.write_vectored(&slices);
                        if let Ok(m) = &r {
                            let m = (*m).min(buf.len());
                            obs.accepted.extend_from_slice(&buf[..m]);
                        }
                        Res::Write { offered: total as u32, res: r.map_err(|e| format!("{:?}", e.kind())) }
                    }
                },
                Op::WriteAll(n) => match writer.as_mut() {
                    None => Res::Skipped,
                    Some(w) => {
                        let buf = payload(case.payload, obs.accepted.len() as u64, *n as usize);
                        let r = w.write_all(&buf);
                        if r.is_ok() {
                            obs.accepted.extend_from_slice(&buf);
                        }
                        Res::Unit(r.map_err(|e| format!("{:?}", e.kind())))
                    }
                },
                Op::Flush => match writer.as_mut() {
                    None => Res::Skipped,
                    Some(w) => Res::Unit(w.flush().map_err(|e| format!("{:?}", e.kind()))),
                },
                Op::Abort => match writer.as_mut() {
                    None => Res::Skipped,
                    Some(w) => {
                        w.abort("aborted by harness".into());
                        Res::Done
                    }
                },
                Op::DropWriter => {
                    drop(writer.take());
                    Res::Done
                }
                Op::DropBody => {
                    drop(body.take());
                    Res::Done
                }
                Op::PollOnce | Op::PollAll => match body.as_mut() {
                    None => Res::Skipped,
                    Some(b) => {
                        let mut recs = Vec::new();
                        loop {
                            if terminal_seen {
                                // polls after the terminal event (C20), at most `extra_polls`
                                if extra_left == 0 {
                                    break;
                                }
                                extra_left -= 1;
                            }
                            let h = b.size_hint();
                            let is_end = b.is_end_stream();
                            let before = obs.delivered.len() as u64;
                            let (ev, data, used) = if case.fresh_wakers {
                                // a different Arc: `will_wake` is false against every earlier waker
                                let a = Arc::new(CountWaker(AtomicU64::new(0)));
                                let w = Waker::from(a.clone());
                                let (ev, data) = poll_once(b, &mut Context::from_waker(&w));
                                (ev, data, a)
                            } else {
                                let (ev, data) = poll_once(b, &mut cx);
                                (ev, data, cw.clone())
                            };
                            if let Some((w, n0)) = parked.take() {
                                if !matches!(ev, Ev::Pending | Ev::Panic(_)) {
                                    obs.park_wake_pairs += 1;
                                    if w.0.load(std::sync::atomic::Ordering::SeqCst) == n0 && obs.lost_wake.is_none() {
                                        obs.lost_wake = Some(format!("step {}: poll returns {:?} although the waker registered by the previous (Pending) poll was never woken", obs.steps.len(), ev));
                                    }
                                }
                            }
                            if matches!(ev, Ev::Pending) {
                                let n0 = used.0.load(std::sync::atomic::Ordering::SeqCst);
                                parked = Some((used, n0));
                            }
                            if let Some(d) = data {
                                if d.is_empty() {
                                    obs.empty_frames += 1;
                                }
                                obs.delivered.extend_from_slice(&d);
                            }
                            let stop = matches!(ev, Ev::Pending);
                            if matches!(ev, Ev::End | Ev::Err(_)) {
                                terminal_seen = true;
                            }
                            recs.push(PollRec { lower: h.lower(), upper: h.upper(), is_end, ev, before });
                            if recs.len() > 4_000_000 {
                                poll_limit_hit = true;
                            }
                            if stop || matches!(op, Op::PollOnce) || poll_limit_hit {
                                break;
                            }
                        }
                        Res::Polls(recs)
                    }
                },
            }
        });
        let res = match res {
            Ok(r) => r,
            Err(p) => Res::Panic(p),
        };
        let panicked = matches!(res, Res::Panic(_));
        obs.steps.push(StepRec { op, res, accepted: obs.accepted.len() as u64, delivered: obs.delivered.len() as u64, live_heap: crate::alloc::live() });
        if panicked {
            break;
        }
    }
    obs.wakes = cw.0.load(std::sync::atomic::Ordering::SeqCst);
    obs.poll_limit_hit = poll_limit_hit;
    if obs.steps.iter().any(|s| matches!(s.res, Res::Panic(_))) {
        // destructors of a writer / body whose lock is poisoned may panic inside a destructor,
        // which aborts the process: leak them
        std::mem::forget(writer);
        std::mem::forget(body);
    } else {
        let _ = crate::util::catch(move || drop(writer));
        let _ = crate::util::catch(move || drop(body));
    }
    Some(obs)
}

pub fn case_with_obs(c: &StreamCase, o: &StreamObs) -> Value {
    json!({ "case": c.to_json(), "observed": o.to_json() })
}
