//! Properties decided (partly) on engine E3: C10 (progress under every interleaving) and C11
//! (abort / disconnect signalled), the latter together with its sequential and memory parts.

use crate::bodymon::Ev;
use crate::driver::{Ctx, Prop, Sink, Tier, Verdict};
use crate::e3::{next_prefix, run_sched, Ev3, Mode, POp, SchedCase, SchedObs, WakerPolicy};
use crate::model::gz;
use crate::p_stream::{c11_memory_case, c11_run_seq_block, c11_seq_judge, c11_seq_space};
use crate::util::{norm_loc, Rng};
use serde_json::{json, Value};

pub fn register(v: &mut Vec<Box<dyn Prop>>) {
    v.push(Box::new(C10));
    v.push(Box::new(C11));
}

fn thorough(ctx: &Ctx) -> bool {
    ctx.tier == Tier::Thorough
}

pub fn sched_case_with_obs(c: &SchedCase, o: &SchedObs) -> Value {
    // replay = the same case in Det mode following the recorded decisions
    let mut r = c.clone();
    if !matches!(c.mode, Mode::Stress(_)) {
        r.mode = Mode::Det;
        r.prefix = o.decisions.iter().map(|d| d.0).collect();
        r.preempt_bound = u32::MAX;
    }
    json!({ "case": r.to_json(), "observed": o.to_json() })
}

fn prog_has_abort(c: &SchedCase) -> bool {
    c.prog.contains(&POp::Abort)
}

/// Index of the first Abort that executed while the writer was alive.
fn abort_executed(c: &SchedCase, o: &SchedObs) -> bool {
    c.prog.iter().enumerate().any(|(i, p)| *p == POp::Abort && i < o.op_results.len())
}

pub fn c10_judge(c: &SchedCase, o: &SchedObs, sink: &mut Sink) -> Verdict {
    let mode = if c.gzip.is_some() { "gzip" } else { "raw" };
    if let Some(p) = &o.panic {
        return Verdict::viol(format!("panic@{}", norm_loc(p)), p.clone());
    }
    if let Some(l) = &o.lost_wakeup {
        return Verdict::viol(format!("lost-wakeup|{}", mode), l.clone());
    }
    if let Some(d) = &o.deadlock {
        return Verdict::viol(format!("deadlock|{}", mode), d.clone());
    }
    let body_dropped = o.events.iter().any(|e| matches!(e, Ev3::BodyDropped));
    let aborted = abort_executed(c, o);
    for e in &o.events {
        if let Ev3::Poll { ev, before, prod_done_at_start, abort_returned_at_start, published_at_start, .. } = e {
            match ev {
                Ev::Pending => {
                    if *prod_done_at_start {
                        return Verdict::viol(format!("pending-after-writer-gone|{}", mode), "a poll that began after the writer had been dropped returned Pending");
                    }
                    if *abort_returned_at_start {
                        return Verdict::viol(format!("pending-after-abort|{}", mode), "a poll that began after abort() had returned was answered Pending");
                    }
                    if c.gzip.is_none() && published_at_start > before && !aborted {
                        return Verdict::viol("pending-with-data-available|raw", format!("{} bytes had been published by returned operations, {} delivered, yet the poll returned Pending", published_at_start, before));
                    }
                }
                Ev::Err(_) if !aborted => return Verdict::viol(format!("error-without-abort|{}", mode), "body reported an error although abort was never called"),
                Ev::Panic(p) => return Verdict::viol(format!("poll-panic@{}", norm_loc(p)), p.clone()),
                _ => {}
            }
        }
    }
    if body_dropped {
        return Verdict::Ok;
    }
    match &o.terminal {
        None => return Verdict::viol(format!("no-terminal-event|{}", mode), "both actors finished but the consumer never saw the end or an error"),
        Some(Ev::End) if !aborted => {
            if c.gzip.is_none() {
                if o.delivered != o.accepted {
                    return Verdict::viol("clean-end-before-everything-delivered|raw", format!("{} bytes accepted, {} delivered at the clean end", o.accepted.len(), o.delivered.len()));
                }
            } else {
                match gz::parse_member(&o.delivered) {
                    Ok(p) if p == o.accepted => {}
                    Ok(p) => return Verdict::viol("clean-end-before-everything-delivered|gzip", format!("{} bytes written, gzip member holds {}", o.accepted.len(), p.len())),
                    Err(e) => return Verdict::viol("clean-end-before-everything-delivered|gzip", format!("stream at the clean end is not a complete gzip member: {}", e)),
                }
            }
        }
        _ => {}
    }
    sink.add("parks", o.parks);
    sink.add("wakes", o.wakes);
    sink.add("stale_wakes", o.stale_wakes);
    sink.add("spurious_polls", o.spurious_polls);
    sink.add("switches_inside_unlock_wake_window", o.window_switches);
    sink.add("switches", o.switches);
    if o.parks > 0 && o.wakes > o.stale_wakes {
        sink.count("runs_with_park_then_live_wake");
    }
    Verdict::Ok
}

/// Alphabet of producer operations for chunk size c.
pub fn palphabet(c: usize) -> Vec<POp> {
    let mut v = Vec::new();
    if c > 1 {
        v.push(POp::Write(c as u32 - 1));
    }
    v.push(POp::Write(c as u32 + 1));
    v.push(POp::Flush);
    v.push(POp::Wait);
    v.push(POp::Abort);
    v
}

pub fn programs(c: usize, max_len: usize) -> Vec<Vec<POp>> {
    let a = palphabet(c);
    let mut out = vec![vec![]];
    let mut layer = vec![vec![]];
    for _ in 0..max_len {
        let mut next = Vec::new();
        for p in &layer {
            for o in &a {
                let mut q: Vec<POp> = p.clone();
                q.push(o.clone());
                next.push(q);
            }
        }
        out.extend(next.iter().cloned());
        layer = next;
    }
    out
}

const POLICIES: [WakerPolicy; 3] = [WakerPolicy::Same, WakerPolicy::Fresh, WakerPolicy::Alternate];

/// Depth-first enumeration of all schedules of `base`; returns (schedules run, complete?).
pub fn dfs(base: &SchedCase, cap: u64, sink: &mut Sink, judge: &dyn Fn(&SchedCase, &SchedObs, &mut Sink) -> Verdict) -> (u64, bool) {
    let mut prefix: Vec<u8> = Vec::new();
    let mut n = 0u64;
    loop {
        if !sink.admit() {
            return (n, false);
        }
        let mut case = base.clone();
        case.prefix = prefix.clone();
        let o = match run_sched(&case) {
            Some(o) => o,
            None => return (n, false),
        };
        n += 1;
        let v = judge(&case, &o, sink);
        sink.record(v, Some(o.trace_hash), &|| sched_case_with_obs(&case, &o));
        match next_prefix(&o.decisions) {
            None => return (n, true),
            Some(p) => prefix = p,
        }
        if n >= cap {
            return (n, false);
        }
    }
}

#[derive(Clone)]
enum Blk {
    /// complete (or capped) enumeration of one program x policy
    Enum { chunk: usize, gzip: Option<u32>, prog: Vec<POp>, policy: WakerPolicy, cap: u64, bound: u32 },
    /// like Enum, with the consumer dropping the body after `drop_after` polls
    EnumDrop { chunk: usize, gzip: Option<u32>, prog: Vec<POp>, drop_after: u32, cap: u64, bound: u32 },
    /// a long program (thousands of lock operations): at most one preemption, a given number of
    /// spurious polls, capped
    Deep { chunk: usize, gzip: Option<u32>, prog: Vec<POp>, policy: WakerPolicy, cap: u64, spurious: u8 },
    Random { chunk: usize, gzip: Option<u32>, n: u64, len: (usize, usize), salt: u64 },
    Stress { chunk: usize, gzip: Option<u32>, n: u64, salt: u64 },
    /// free-running: a long write (thousands of lock acquisitions) while the consumer drops the
    /// body after a random number of polls, i.e. at an arbitrary instant of the writer's work -
    /// including while the writer holds the lock
    StressDrop { chunk: usize, gzip: Option<u32>, n: u64, salt: u64 },
}

fn c10_blocks(ctx: &Ctx) -> Vec<Blk> {
    let mut b = Vec::new();
    if ctx.leg.slow() {
        // Miri: programs of <= 1 operation, capped
        for prog in programs(2, 1) {
            for policy in POLICIES {
                b.push(Blk::Enum { chunk: 2, gzip: None, prog: prog.clone(), policy, cap: 60, bound: u32::MAX });
            }
        }
        b.push(Blk::Stress { chunk: 2, gzip: None, n: 3, salt: 0 });
        return b;
    }
    if ctx.leg == crate::driver::Leg::Tsan {
        for k in 0..32 {
            b.push(Blk::Stress { chunk: [1usize, 2, 4096][k % 3], gzip: if k % 4 == 3 { Some(1) } else { None }, n: 3000, salt: k as u64 });
        }
        for prog in programs(2, 2) {
            b.push(Blk::Enum { chunk: 2, gzip: None, prog, policy: POLICIES[b.len() % 3], cap: 200, bound: u32::MAX });
        }
        return b;
    }
    let full_len = if thorough(ctx) { 3 } else { 2 };
    for prog in programs(2, full_len) {
        for policy in POLICIES {
            b.push(Blk::Enum { chunk: 2, gzip: None, prog: prog.clone(), policy, cap: u64::MAX, bound: u32::MAX });
        }
    }
    // other chunk sizes and the gzip writer: short programs, capped
    for (chunk, gzip) in [(1usize, None), (4096, None), (2, Some(1u32)), (1, Some(1))] {
        for prog in programs(chunk, if thorough(ctx) { 2 } else { 1 }) {
            for policy in POLICIES {
                b.push(Blk::Enum { chunk, gzip, prog: prog.clone(), policy, cap: if thorough(ctx) { 4000 } else { 400 }, bound: u32::MAX });
            }
        }
    }
    if thorough(ctx) {
        // 4 operations: preemption-bounded and capped per program
        for prog in programs(2, 4).into_iter().filter(|p| p.len() == 4) {
            for policy in POLICIES {
                b.push(Blk::Enum { chunk: 2, gzip: None, prog: prog.clone(), policy, cap: 4000, bound: 3 });
            }
        }
    }
    // one write spanning many chunks (several publications inside a single call), chunk 4096
    for prog in [
        vec![POp::Write(6 * 4096)],
        vec![POp::Write(5 * 4096 + 100), POp::Flush],
        vec![POp::Write(6 * 4096), POp::Wait],
        vec![POp::Write(100), POp::Write(6 * 4096), POp::Wait],
        vec![POp::Wait, POp::Write(8 * 4096), POp::Flush, POp::Wait],
    ] {
        for policy in POLICIES {
            b.push(Blk::Enum { chunk: 4096, gzip: None, prog: prog.clone(), policy, cap: if thorough(ctx) { 6000 } else { 600 }, bound: u32::MAX });
        }
    }
    // the same through the gzip writer (the compressor hands its output over in several pieces)
    for prog in [vec![POp::Write(10 * 4096), POp::Flush, POp::Wait], vec![POp::Wait, POp::Write(12 * 4096)]] {
        b.push(Blk::Enum { chunk: 4096, gzip: Some(1), prog: prog.clone(), policy: WakerPolicy::Fresh, cap: if thorough(ctx) { 4000 } else { 400 }, bound: u32::MAX });
        b.push(Blk::Enum { chunk: 1000, gzip: Some(6), prog, policy: WakerPolicy::Same, cap: if thorough(ctx) { 4000 } else { 400 }, bound: u32::MAX });
    }
    // a deep backlog (thousands of queued chunks) that the consumer drains completely, then more
    // data / the end: the wake-up after an idle period following a burst
    let depths: &[u32] = if thorough(ctx) { &[300, 1500, 3000, 6000, 20_000] } else { &[300, 3000, 6000] };
    for depth in depths {
        for (k, prog) in [
            vec![POp::Write(*depth), POp::Wait, POp::Write(1), POp::Wait, POp::Write(2), POp::Flush, POp::Wait],
            vec![POp::Write(*depth), POp::Wait],
            vec![POp::Write(*depth), POp::Wait, POp::Abort],
        ].into_iter().enumerate() {
            for spurious in [0u8, 2] {
                b.push(Blk::Deep { chunk: 1, gzip: None, prog: prog.clone(), policy: POLICIES[(k + spurious as usize) % 3], cap: if thorough(ctx) { 400 } else { 30 }, spurious });
            }
        }
    }
    let n_rand = if thorough(ctx) { 64 } else { 16 };
    for k in 0..n_rand {
        b.push(Blk::Random { chunk: [2usize, 1, 3, 4096][k % 4], gzip: if k % 5 == 4 { Some(1) } else { None }, n: if thorough(ctx) { 1600 } else { 250 }, len: (3, 6), salt: k as u64 });
    }
    for k in 0..(if thorough(ctx) { 32 } else { 8 }) {
        b.push(Blk::Stress { chunk: [1usize, 2, 4096][k % 3], gzip: if k % 4 == 3 { Some(1) } else { None }, n: if thorough(ctx) { 400 } else { 60 }, salt: k as u64 });
    }
    b
}

fn random_prog(c: usize, len: (usize, usize), rng: &mut Rng) -> Vec<POp> {
    let a = palphabet(c);
    let l = rng.range(len.0 as u64, len.1 as u64) as usize;
    (0..l).map(|_| rng.pick(&a).clone()).collect()
}

fn run_blk(ctx: &Ctx, blk: &Blk, tag: u64, sink: &mut Sink, judge: &dyn Fn(&SchedCase, &SchedObs, &mut Sink) -> Verdict, tweak: &dyn Fn(&mut SchedCase, &mut Rng)) {
    match blk {
        Blk::Enum { chunk, gzip, prog, policy, cap, bound } => {
            let mut rng = Rng::from_parts(ctx.seed, &[tag, 77]);
            let mut base = SchedCase::new(*chunk, *gzip, prog.clone(), *policy);
            base.preempt_bound = *bound;
            tweak(&mut base, &mut rng);
            let (n, complete) = dfs(&base, *cap, sink, judge);
            sink.add("schedules", n);
            let key = format!("programs_{}ops_{}", prog.len(), if complete && *bound == u32::MAX { "enumerated_completely" } else if complete { "enumerated_completely_within_preemption_bound" } else { "capped" });
            sink.count(&key);
        }
        Blk::Deep { chunk, gzip, prog, policy, cap, spurious } => {
            let mut base = SchedCase::new(*chunk, *gzip, prog.clone(), *policy);
            base.preempt_bound = 1;
            base.spurious = *spurious;
            let (n, _) = dfs(&base, *cap, sink, judge);
            sink.add("schedules", n);
            sink.add("deep_backlog_schedules", n);
            // the capped enumeration only varies the tail of the run: add seeded random schedules
            // (a switch at about every third decision point) of the same program
            let mut rng = Rng::from_parts(ctx.seed, &[tag, 78]);
            for _ in 0..(*cap / 6).max(3) {
                if !sink.admit() {
                    return;
                }
                let mut case = base.clone();
                case.preempt_bound = u32::MAX;
                case.mode = Mode::Random(rng.next());
                if let Some(o) = run_sched(&case) {
                    let v = judge(&case, &o, sink);
                    sink.count("random_schedules");
                    sink.count("deep_backlog_schedules");
                    sink.record(v, Some(o.trace_hash), &|| sched_case_with_obs(&case, &o));
                }
            }
        }
        Blk::EnumDrop { chunk, gzip, prog, drop_after, cap, bound } => {
            let mut base = SchedCase::new(*chunk, *gzip, prog.clone(), WakerPolicy::Same);
            base.drop_body_after = Some(*drop_after);
            base.preempt_bound = *bound;
            if *bound != u32::MAX {
                base.spurious = 0;
            }
            base.sample_hints = false;
            let (n, _) = dfs(&base, *cap, sink, judge);
            sink.add("schedules", n);
            sink.add("body_drop_enumerated_schedules", n);
        }
        Blk::Random { chunk, gzip, n, len, salt } => {
            let mut rng = Rng::from_parts(ctx.seed, &[tag, 1, *salt]);
            for _ in 0..*n {
                if !sink.admit() {
                    return;
                }
                let mut case = SchedCase::new(*chunk, *gzip, random_prog(*chunk, *len, &mut rng), *rng.pick(&POLICIES));
                case.mode = Mode::Random(rng.next());
                tweak(&mut case, &mut rng);
                if let Some(o) = run_sched(&case) {
                    let v = judge(&case, &o, sink);
                    sink.count("random_schedules");
                    sink.record(v, Some(o.trace_hash), &|| sched_case_with_obs(&case, &o));
                }
            }
        }
        Blk::StressDrop { chunk, gzip, n, salt } => {
            let mut rng = Rng::from_parts(ctx.seed, &[tag, 3, *salt]);
            for _ in 0..*n {
                if !sink.admit() {
                    return;
                }
                let c = *chunk as u32;
                let prog = vec![POp::Write(c * rng.range(200, 3000) as u32), POp::Write(c + 1), POp::Flush, POp::Write(3 * c), POp::Flush];
                let mut case = SchedCase::new(*chunk, *gzip, prog, *rng.pick(&[WakerPolicy::Same, WakerPolicy::Fresh]));
                case.mode = Mode::Stress(rng.next());
                case.spurious = 0;
                case.sample_hints = false;
                case.drop_body_after = Some(if rng.chance(1, 4) { rng.below(3) as u32 } else { rng.range(3, 1500) as u32 });
                if let Some(o) = run_sched(&case) {
                    let v = judge(&case, &o, sink);
                    sink.count("stress_runs");
                    sink.count("stress_runs_with_body_drop_during_long_write");
                    sink.record(v, Some(o.trace_hash), &|| sched_case_with_obs(&case, &o));
                }
            }
        }
        Blk::Stress { chunk, gzip, n, salt } => {
            let mut rng = Rng::from_parts(ctx.seed, &[tag, 2, *salt]);
            for _ in 0..*n {
                if !sink.admit() {
                    return;
                }
                let mut prog = random_prog(*chunk, (2, 6), &mut rng);
                prog.retain(|p| *p != POp::Wait); // no token passing in stress mode
                let mut case = SchedCase::new(*chunk, *gzip, prog, *rng.pick(&[WakerPolicy::Same, WakerPolicy::Fresh]));
                case.mode = Mode::Stress(rng.next());
                case.spurious = 0;
                tweak(&mut case, &mut rng);
                if let Some(o) = run_sched(&case) {
                    let v = judge(&case, &o, sink);
                    sink.count("stress_runs");
                    sink.record(v, Some(o.trace_hash), &|| sched_case_with_obs(&case, &o));
                }
            }
        }
    }
}

/// Sequential histories (engine E2) judged for lost wake-ups only: whenever a poll returned
/// Pending and a later poll returns data / the end / an error, the waker that the Pending poll
/// registered must have been woken in between.
pub fn c10_seq_judge(c: &crate::e2::StreamCase, o: &crate::e2::StreamObs, sink: &mut Sink) -> (Verdict, Option<u64>) {
    if o.build_panic.is_some() || o.steps.iter().any(|s| matches!(s.res, crate::e2::Res::Panic(_))) {
        return (Verdict::DontCare("panic (judged by C08)".into()), None);
    }
    if let Some(w) = &o.lost_wake {
        return (Verdict::viol(format!("lost-wakeup-sequential|{}", if c.gzip_level.is_some() { "gzip" } else { "raw" }), w.clone()), None);
    }
    sink.add("sequential_park_then_ready_pairs", o.park_wake_pairs);
    sink.count("sequential_histories");
    (Verdict::Ok, if o.park_wake_pairs > 0 { Some(crate::util::hash64(c)) } else { None })
}

fn c10_seq_blocks(ctx: &Ctx) -> usize {
    if ctx.leg == crate::driver::Leg::Tsan {
        0
    } else {
        crate::p_stream::c08_n_blocks(ctx)
    }
}

pub struct C10;

impl Prop for C10 {
    fn id(&self) -> &'static str {
        "C10"
    }
    fn level(&self) -> &'static str {
        "exploration"
    }
    fn rule(&self, ctx: &Ctx) -> String {
        format!("executions of the real chunker on two threads under a token-passing scheduler driven by the instrumented mutex (decision points: before every critical section, between unlock and wake, at every Pending: park / spurious re-poll, <= 2 spurious polls per run; waker policy same / fresh-per-poll / alternating). Producer programs over {{write<c, write>=c, flush, wait-until-delivered, abort}} + final drop: ALL schedules of ALL programs of <= {} operations (chunk 2, raw); capped enumeration for chunk sizes 1 and 4096 and the gzip writer{}; seeded random schedules of 3-6-operation programs; free-running stress with injected delays. One evaluation = one schedule; distinct non-trivial = distinct event-trace hashes. Deep backlogs: programs that queue 300..20000 chunks, let the consumer drain them and then publish more / abort, <= 1 preemption. In every third block the writer is dropped by the unwinding of a panicking producer instead of a plain drop. Sequential histories: the C08 op sequences (incl. deep queues and both waker modes) judged for 'Pending, then ready, without the registered waker having fired'",
            if thorough(ctx) { 3 } else { 2 }, if thorough(ctx) { "; 4-operation programs within 3 preemptions, capped at 4000 schedules each" } else { "" })
    }
    fn n_blocks(&self, ctx: &Ctx) -> usize {
        c10_blocks(ctx).len() + c10_seq_blocks(ctx)
    }
    fn run_block(&self, b: usize, sink: &mut Sink) {
        let ctx = sink.ctx.clone();
        let n = c10_blocks(&ctx).len();
        if b >= n {
            crate::p_stream::c08_block(b - n, sink, &c10_seq_judge);
            return;
        }
        let blk = c10_blocks(&ctx)[b].clone();
        // every third block ends the writer by unwinding instead of a plain drop
        let unwind = b % 3 == 2;
        run_blk(&ctx, &blk, 10_000 + b as u64, sink, &c10_judge, &|case, _| {
            case.drop_by_unwind = unwind;
        });
        if unwind {
            sink.count("blocks_with_writer_dropped_by_unwinding");
        }
    }
    fn replay(&self, case: &Value, sink: &mut Sink) {
        let inner = if case.get("case").is_some() { &case["case"] } else { case };
        if inner.get("ops").is_some() {
            crate::p_stream::replay(&c10_seq_judge, case, sink);
            return;
        }
        let c = SchedCase::from_json(inner);
        let n = if matches!(c.mode, Mode::Stress(_)) { 200 } else { 1 };
        for _ in 0..n {
            if let Some(o) = run_sched(&c) {
                let v = c10_judge(&c, &o, sink);
                sink.record(v, Some(o.trace_hash), &|| sched_case_with_obs(&c, &o));
            }
        }
    }
    fn floors(&self, ctx: &Ctx) -> Vec<(&'static str, u64)> {
        let mut v = vec![("parks", 1000), ("wakes", 1000), ("spurious_polls", 1000), ("switches_inside_unlock_wake_window", 1000), ("stale_wakes", 100), ("runs_with_park_then_live_wake", 1000), ("stress_runs", 100), ("programs_2ops_enumerated_completely", 75), ("deep_backlog_schedules", 100), ("sequential_park_then_ready_pairs", 10_000)];
        if thorough(ctx) {
            v.push(("programs_3ops_enumerated_completely", 375));
        }
        v
    }
    fn assumptions(&self) -> Vec<String> {
        vec![
            "critical sections are atomic for the scheduler (they are under the code's own lock); code between two hook events touches only thread-private data, so switching inside such a stretch equals switching at its start".into(),
            "waker contract: only the waker presented in the most recent poll must reach the task; older ones are treated as dead".into(),
            "'all interleavings' holds only for the programs counted as enumerated_completely; the rest is capped, preemption-bounded, random or free-running".into(),
        ]
    }
}

// =================================================================================== C11 ====

pub struct C11;

pub fn c11_sched_judge(c: &SchedCase, o: &SchedObs, sink: &mut Sink) -> Verdict {
    let mode = if c.gzip.is_some() { "gzip" } else { "raw" };
    if let Some(p) = &o.panic {
        return Verdict::viol(format!("panic@{}", norm_loc(p)), p.clone());
    }
    let aborted_at = c.prog.iter().position(|p| *p == POp::Abort).filter(|i| *i < o.op_results.len());
    let body_dropped = o.events.iter().any(|e| matches!(e, Ev3::BodyDropped));
    if let Some(a) = aborted_at {
        // every later write / flush fails
        for (i, op) in c.prog.iter().enumerate().skip(a + 1) {
            if i < o.op_results.len() && o.op_results[i] && matches!(op, POp::Write(_) | POp::Flush) {
                return Verdict::viol(format!("{}-ok-after-abort|{}", if *op == POp::Flush { "flush" } else { "write" }, mode), format!("operation {} ({:?}) succeeded after abort at {}", i, op, a));
            }
        }
        if !body_dropped {
            if let Some(why) = o.lost_wakeup.as_ref().or(o.deadlock.as_ref()) {
                // the abort was swallowed: the consumer sleeps and never sees the error
                if o.terminal.is_none() {
                    return Verdict::viol(format!("abort-swallowed-consumer-sleeps|{}", mode), format!("abort() returned, the consumer never observed the error: {}", why));
                }
                return Verdict::DontCare("progress problem after the terminal event (C10)".into());
            }
            match &o.terminal {
                Some(Ev::Err(_)) => {}
                Some(Ev::End) => return Verdict::viol(format!("clean-end-after-abort|{}", mode), "abort() was called, the body nevertheless ended cleanly"),
                _ => return Verdict::viol(format!("abort-error-never-delivered|{}", mode), "abort() was called, no error was ever reported to the consumer"),
            }
            // end-of-stream flag must not be set while the error is pending
            let mut abort_seen = false;
            for e in &o.events {
                match e {
                    Ev3::Op(i, _) if *i == a => abort_seen = true,
                    Ev3::Poll { hint: Some((_, _, true)), ev, abort_returned_at_start: true, .. } if abort_seen && matches!(ev, Ev::Err(_)) => {
                        return Verdict::viol(format!("is-end-stream-while-error-pending|{}", mode), "is_end_stream() was true right before the abort error was delivered");
                    }
                    _ => {}
                }
            }
            // delivered bytes are a prefix of what was written
            let ok = if c.gzip.is_some() { gz::inflate_prefix(&o.delivered).map(|p| o.accepted.starts_with(&p)).unwrap_or(false) } else { o.accepted.starts_with(&o.delivered) };
            if !ok {
                return Verdict::viol(format!("delivered-not-a-prefix|{}", mode), "bytes delivered before the abort error are not a prefix of the bytes written");
            }
            sink.count("abort_schedules");
        }
    }
    if body_dropped {
        // operations that began after the body was dropped and hand something over must fail
        let mut dropped = false;
        let mut buffered_unknown = true;
        let mut failed = false;
        let _ = &mut buffered_unknown;
        for e in &o.events {
            match e {
                Ev3::BodyDropped => dropped = true,
                Ev3::Op(i, ok) => {
                    if failed && *ok && matches!(c.prog[*i], POp::Write(_) | POp::Flush) {
                        return Verdict::viol(format!("ok-after-error|{}", mode), format!("operation {} succeeded after an earlier one had failed", i));
                    }
                    if !*ok {
                        failed = true;
                        if dropped {
                            sink.count("writer_told_body_gone");
                        }
                    }
                }
                _ => {}
            }
        }
        // a chunk-completing write / publishing flush that *began* after the drop had completed
        // must not succeed (an earlier error makes every later operation fail anyway)
        for e in &o.events {
            if let Ev3::OpDetail { i, ok: true, began_after_body_drop: true, hands_over: true } = e {
                if aborted_at.is_none_or(|a| *i < a) {
                    return Verdict::viol(format!("ok-after-body-drop|{}", mode), format!("operation {} ({:?}) began after the consumer had dropped the body, had data to hand over, and returned Ok", i, c.prog[*i]));
                }
            }
        }
        sink.count("body_drop_schedules");
    }
    Verdict::Ok
}

fn c11_sched_blocks(ctx: &Ctx) -> Vec<Blk> {
    let mut b = Vec::new();
    if ctx.leg.slow() {
        b.push(Blk::Enum { chunk: 2, gzip: None, prog: vec![POp::Write(3), POp::Abort], policy: WakerPolicy::Same, cap: 10, bound: u32::MAX });
        return b;
    }
    let max_len = if thorough(ctx) { 3 } else { 2 };
    for prog in programs(2, max_len).into_iter().filter(|p| p.contains(&POp::Abort)) {
        for policy in POLICIES {
            b.push(Blk::Enum { chunk: 2, gzip: None, prog: prog.clone(), policy, cap: if thorough(ctx) { 20_000 } else { 1500 }, bound: u32::MAX });
        }
    }
    for prog in programs(2, 2).into_iter().filter(|p| p.contains(&POp::Abort)) {
        b.push(Blk::Enum { chunk: 2, gzip: Some(1), prog, policy: WakerPolicy::Fresh, cap: if thorough(ctx) { 3000 } else { 300 }, bound: u32::MAX });
    }
    // consumer drops the body after k polls, all schedules (capped): programs without abort
    for prog in programs(2, 2).into_iter().filter(|p| !p.contains(&POp::Abort) && !p.is_empty()) {
        for k in 0..3u32 {
            b.push(Blk::EnumDrop { chunk: 2, gzip: if k == 2 { Some(1) } else { None }, prog: prog.clone(), drop_after: k, cap: if thorough(ctx) { 2000 } else { 150 }, bound: u32::MAX });
        }
    }
    // one long write (hundreds to thousands of chunks queued) with the body drop placed at every
    // lock-granularity position inside it: a single preemption, enumerated completely
    let depths: &[u32] = if thorough(ctx) { &[40, 300, 1030, 2100, 4200] } else { &[40, 300, 1030] };
    for depth in depths {
        for drop_after in [0u32, 1] {
            b.push(Blk::EnumDrop { chunk: 1, gzip: None, prog: vec![POp::Write(*depth), POp::Write(3), POp::Flush], drop_after, cap: 3 * *depth as u64 + 50, bound: 1 });
        }
    }
    b.push(Blk::EnumDrop { chunk: 4, gzip: None, prog: vec![POp::Write(4 * 1100), POp::Write(5), POp::Flush], drop_after: 0, cap: 4000, bound: 1 });
    b.push(Blk::EnumDrop { chunk: 1, gzip: Some(1), prog: vec![POp::Write(3000), POp::Flush, POp::Write(3000), POp::Flush], drop_after: 0, cap: if thorough(ctx) { 6000 } else { 1500 }, bound: 1 });
    for k in 0..(if thorough(ctx) { 32 } else { 8 }) {
        b.push(Blk::StressDrop { chunk: [1usize, 2, 1, 7][k % 4], gzip: if k % 8 == 7 { Some(1) } else { None }, n: if thorough(ctx) { 600 } else { 150 }, salt: 3000 + k as u64 });
    }
    for k in 0..(if thorough(ctx) { 32 } else { 8 }) {
        b.push(Blk::Random { chunk: [2usize, 1, 4096][k % 3], gzip: if k % 4 == 3 { Some(1) } else { None }, n: if thorough(ctx) { 1500 } else { 250 }, len: (2, 6), salt: 1000 + k as u64 });
        b.push(Blk::Stress { chunk: [2usize, 1, 4096][k % 3], gzip: if k % 4 == 3 { Some(6) } else { None }, n: if thorough(ctx) { 300 } else { 50 }, salt: 2000 + k as u64 });
    }
    b
}

impl Prop for C11 {
    fn id(&self) -> &'static str {
        "C11"
    }
    fn level(&self) -> &'static str {
        "fault_enumeration"
    }
    fn rule(&self, ctx: &Ctx) -> String {
        format!("fault = abort or body drop. (1) sequential, exhaustive: every op sequence of length 0..={} over the write/write_all/flush/poll alphabet of C08 plus two write_vectored calls, for chunk sizes {{1,2,3,4,7}}, the fault inserted at every position, followed by write(1), flush, write(c), poll-until-pending; raw and gzip levels 1 and 6. (2) interleaved: every producer program of <= {} operations containing abort under the C10 scheduler (all schedules up to a cap), random programs with the consumer dropping the body after k polls, free-running stress incl. long writes (200 .. 3000 chunks) during which the consumer thread drops the body at an arbitrary instant. (3) memory: >= 1 MiB queued, body dropped, live heap of the thread (counting allocator) must fall by >= 90% after one writer operation and stay bounded over 1000 further chunk writes. Non-trivial = distinct history/schedule containing the fault and judged",
            if thorough(ctx) { 4 } else { 3 }, if thorough(ctx) { 3 } else { 2 })
    }
    fn n_blocks(&self, ctx: &Ctx) -> usize {
        c11_seq_space(ctx).blocks.len() + c11_sched_blocks(ctx).len() + 1
    }
    fn run_block(&self, b: usize, sink: &mut Sink) {
        let ctx = sink.ctx.clone();
        let seq = c11_seq_space(&ctx);
        if b < seq.blocks.len() {
            // single-threaded histories have nothing for the race detector
            if ctx.leg != crate::driver::Leg::Tsan {
                c11_run_seq_block(&ctx, seq.blocks[b], sink, &c11_seq_judge);
            }
            return;
        }
        let sb = c11_sched_blocks(&ctx);
        let k = b - seq.blocks.len();
        if k < sb.len() {
            run_blk(&ctx, &sb[k], 11_000 + k as u64, sink, &c11_sched_judge, &|case, rng| {
                case.sample_hints = true;
                if !matches!(case.mode, Mode::Det) && rng.chance(1, 3) {
                    case.drop_body_after = Some(rng.below(4) as u32);
                }
            });
            return;
        }
        // memory clause
        for (chunk, gzip) in [(4096usize, None), (65_536, None), (1000, None), (4096, Some(1u32)), (4096, Some(6))] {
            if sink.ctx.leg.slow() {
                continue; // 1.5 MiB of writes under an interpreter takes hours; the heap clause is native-only
            }
            if !sink.admit() {
                return;
            }
            let (v, nt, desc) = c11_memory_case(chunk, gzip, sink);
            sink.record(v, nt, &|| desc.clone());
        }
    }
    fn replay(&self, case: &Value, sink: &mut Sink) {
        let inner = if case.get("case").is_some() { &case["case"] } else { case };
        if let Some(m) = inner.get("memory_case") {
            let (v, nt, desc) = c11_memory_case(m["chunk"].as_u64().unwrap_or(4096) as usize, m["gzip_level"].as_u64().map(|x| x as u32), sink);
            sink.record(v, nt, &|| desc.clone());
        } else if inner.get("prog").is_some() {
            let c = SchedCase::from_json(inner);
            let n = if matches!(c.mode, Mode::Stress(_)) { 200 } else { 1 };
            for _ in 0..n {
                if let Some(o) = run_sched(&c) {
                    let v = c11_sched_judge(&c, &o, sink);
                    sink.record(v, Some(o.trace_hash), &|| sched_case_with_obs(&c, &o));
                }
            }
        } else {
            crate::p_stream::replay(&c11_seq_judge, case, sink);
        }
    }
    fn floors(&self, _: &Ctx) -> Vec<(&'static str, u64)> {
        vec![("abort_histories", 1000), ("body_drop_histories", 1000), ("abort_schedules", 1000), ("body_drop_schedules", 1000), ("body_drop_enumerated_schedules", 1000), ("memory_release_checked", 3), ("writer_told_body_gone", 1000), ("stress_runs_with_body_drop_during_long_write", 100)]
    }
    fn assumptions(&self) -> Vec<String> {
        vec![
            "not judged: a flush with nothing pending on a raw writer after the body was dropped; write_all of 0 bytes (it never calls write)".into(),
            "'chunk-completing' is modelled from the configured chunk size: a raw write completes a chunk when the bytes accepted since the last publication reach it".into(),
            "the writer must have been told by its next operation that hands something over; how soon memory is released beyond that is not judged".into(),
        ]
    }
}
