//! Properties decided on engine E1 (`serve`): C01-C07, C13-C15.

use crate::bodymon::{Ev, Terminal};
use crate::driver::{Ctx, Prop, Sink, Tier, Verdict};
use crate::e1::{case_with_obs, run_serve, ServeCase, ServeObs};
use crate::ent::{content_byte_mode, ChunkPlan, EntSpec, Fault, FaultKind, Sz};
use crate::gen::*;
use crate::model::cond::{self, fmt_date, parse_imf, DateStyle, TagList};
use crate::model::multipart;
use crate::model::range::{self as rmodel, parse_content_range, ContentRange, Expect};
use crate::util::{hash64, norm_loc, show, Rng};
use serde_json::{json, Value};

pub fn register(v: &mut Vec<Box<dyn Prop>>) {
    v.push(Box::new(C01));
    v.push(Box::new(C02));
    v.push(Box::new(C03));
    v.push(Box::new(C04));
    v.push(Box::new(C05));
    v.push(Box::new(C06));
    v.push(Box::new(C07));
    v.push(Box::new(C13));
    v.push(Box::new(C14));
    v.push(Box::new(C15));
}

fn thorough(ctx: &Ctx) -> bool {
    ctx.tier == Tier::Thorough
}

/// Statuses in which `serve` answers without Content-Length.
const NO_CL: [u16; 6] = [304, 400, 405, 412, 413, 416];

fn terminal_str(t: &Terminal) -> String {
    match t {
        Terminal::End => "end".into(),
        Terminal::Err(_) => "err".into(),
        Terminal::Panic(p) => format!("panic@{}", norm_loc(p)),
        Terminal::Capped => "capped".into(),
        Terminal::Stuck => "stuck".into(),
    }
}

pub fn replay_serve(
    judge: &dyn Fn(&ServeCase, &ServeObs, &mut Sink) -> (Verdict, Option<u64>),
    case: &Value,
    sink: &mut Sink,
) {
    let c = ServeCase::from_json(if case.get("case").is_some() { &case["case"] } else { case });
    if let Some(obs) = run_serve(&c) {
        let (v, nt) = judge(&c, &obs, sink);
        sink.record(v, nt, &|| case_with_obs(&c, &obs));
    }
}

pub fn exec(
    c: &ServeCase,
    sink: &mut Sink,
    judge: &dyn Fn(&ServeCase, &ServeObs, &mut Sink) -> (Verdict, Option<u64>),
) {
    if !sink.admit() {
        return;
    }
    // the protocol version of the request is no input of any property: a quarter of all cases
    // is sent as HTTP/1.0, 0.9, 2 or 3 instead of the default 1.1
    let alt;
    let c = if c.version == 0 && hash64(c) % 4 == 0 {
        let mut a = c.clone();
        a.version = 1 + ((hash64(c) >> 2) % 4) as u8;
        sink.count("requests_with_other_http_version");
        alt = a;
        &alt
    } else {
        c
    };
    match run_serve(c) {
        None => sink.count("inexpressible_request"),
        Some(obs) => {
            if let Some(r) = &obs.resp {
                sink.count(&format!("status_{}", r.status));
            }
            if let Some(d) = &obs.drain {
                sink.add("polls", d.steps.len() as u64);
                sink.add("pendings", d.pendings);
                sink.add("bytes_drained", d.total);
                sink.count(&format!("terminal_{}", match &d.terminal {
                    Terminal::End => "end",
                    Terminal::Err(_) => "err",
                    Terminal::Panic(_) => "panic",
                    Terminal::Capped => "capped",
                    Terminal::Stuck => "stuck",
                }));
            }
            let (v, nt) = judge(c, &obs, sink);
            sink.record(v, nt, &|| case_with_obs(c, &obs));
        }
    }
}

// =================================================================================== C01 ====

pub struct C01;

pub fn c01_judge(c: &ServeCase, o: &ServeObs, sink: &mut Sink) -> (Verdict, Option<u64>) {
    if let Some(p) = &o.serve_panic {
        sink.cross_note("C13:serve-panic", || p.clone());
        return (Verdict::DontCare("serve panicked (C13)".into()), None);
    }
    let r = o.resp.as_ref().unwrap();
    let d = o.drain.as_ref().unwrap();
    let cl_count = r.count("content-length");
    let cl = r.get_u64("content-length");
    if r.status == 200 || r.status == 206 {
        if cl_count != 1 || cl.is_none() {
            return (
                Verdict::viol(
                    format!("no-content-length|{}", r.status),
                    format!("{} response with {} Content-Length header(s), value {:?}", r.status, cl_count, r.get("content-length").map(show)),
                ),
                None,
            );
        }
    } else if !NO_CL.contains(&r.status) {
        sink.cross_note("C13:status", || format!("status {}", r.status));
    }
    if c.method == "HEAD" {
        // body of a HEAD response is C15's business
        return (Verdict::Ok, None);
    }
    // the body's own announcement
    let (lo, up) = o.init_hint;
    if up != Some(lo) {
        return (
            Verdict::viol(format!("inexact-initial-hint|{}", r.status), format!("initial size hint {:?}..{:?} is not exact", lo, up)),
            None,
        );
    }
    let announced = match cl {
        Some(cl) => {
            if cl != lo {
                return (
                    Verdict::viol(format!("hint-vs-content-length|{}", r.status), format!("Content-Length {} but initial exact size hint {}", cl, lo)),
                    None,
                );
            }
            cl
        }
        None => {
            if cl_count != 0 {
                return (Verdict::viol(format!("unparseable-content-length|{}", r.status), format!("Content-Length {:?}", r.get("content-length").map(show))), None);
            }
            lo
        }
    };
    if d.total > announced {
        return (
            Verdict::viol(format!("delivered-more|{}", r.status), format!("announced {} bytes, delivered {}", announced, d.total)),
            None,
        );
    }
    match &d.terminal {
        Terminal::End => {
            if d.total != announced {
                return (
                    Verdict::viol(format!("clean-end-length-mismatch|{}", r.status), format!("announced {} bytes, body ended cleanly after {}", announced, d.total)),
                    None,
                );
            }
        }
        Terminal::Capped => sink.count("undrained_prefix_only"),
        t => {
            let t = terminal_str(t);
            sink.cross_note("body-failed-with-honest-entity", || t.clone());
            return (Verdict::DontCare(format!("body did not end cleanly: {}", t)), None);
        }
    }
    let nt = if (r.status == 200 || r.status == 206) && d.total > 0 { Some(hash64(c)) } else { None };
    if nt.is_some() {
        sink.count("nontrivial_2xx_bodies");
    }
    (Verdict::Ok, nt)
}

struct C01Blocks {
    lens: Vec<u64>,
    plans: Vec<ChunkPlan>,
}

fn c01_space(ctx: &Ctx) -> C01Blocks {
    let lens = if ctx.leg.slow() { vec![0, 1, 10, 240, 65_537, U64MAX] } else { lens_all() };
    C01Blocks { lens, plans: chunk_plans() }
}

fn cap_for(plan: &ChunkPlan, thorough: bool) -> u64 {
    if plan_is_small_chunks(plan) || plan.pend_period > 0 {
        2048
    } else if thorough {
        1 << 18
    } else {
        1 << 16
    }
}

impl Prop for C01 {
    fn id(&self) -> &'static str {
        "C01"
    }
    fn level(&self) -> &'static str {
        "exploration"
    }
    fn rule(&self, _: &Ctx) -> String {
        "block = entity length x chunk plan (plus bodies of 4 MiB + 1 .. 70 MiB drained completely, and requests judged while 70 / 300 / 1100 other responses of every shape are alive); inside: methods {GET,HEAD,POST} x Range values (boundary positions for that length, multi, unsatisfiable, garbage, >64-bit) x conditional-header combinations; contract-honouring entities. Non-trivial = distinct (request, entity, plan) whose 200/206 body delivered >= 1 byte and was compared with Content-Length and the exact size hint".into()
    }
    fn n_blocks(&self, ctx: &Ctx) -> usize {
        c01_n_blocks(ctx) + long_body_n(ctx) + 1
    }
    fn run_block(&self, b: usize, sink: &mut Sink) {
        let n = c01_n_blocks(sink.ctx);
        if b >= n + long_body_n(sink.ctx) {
            many_live_block(sink, &c01_judge);
        } else if b >= n {
            long_body_block(b - n, sink, &c01_judge);
        } else {
            c01_block(b, sink, &c01_judge);
        }
    }
    fn replay(&self, case: &Value, sink: &mut Sink) {
        replay_serve(&c01_judge, case, sink);
    }
    fn floors(&self, _: &Ctx) -> Vec<(&'static str, u64)> {
        vec![("nontrivial_2xx_bodies", 1000), ("status_206", 100), ("status_416", 10), ("status_304", 10), ("status_412", 10), ("status_405", 10)]
    }
    fn assumptions(&self) -> Vec<String> {
        vec!["bodies above the drain cap (64-256 KiB; 2 KiB for tiny-chunk plans) are judged on the drained prefix only: never more than announced, exact hint bookkeeping".into()]
    }
}

pub type ServeJudge = dyn Fn(&ServeCase, &ServeObs, &mut Sink) -> (Verdict, Option<u64>);

pub fn c01_n_blocks(ctx: &Ctx) -> usize {
    let s = c01_space(ctx);
    s.lens.len() * s.plans.len()
}

pub fn c01_block(b: usize, sink: &mut Sink, judge: &ServeJudge) {
    {
        let ctx = sink.ctx.clone();
        let s = c01_space(&ctx);
        let len = s.lens[b / s.plans.len()];
        let plan = s.plans[b % s.plans.len()].clone();
        let mut rng = Rng::from_parts(ctx.seed, &[1, b as u64]);
        let mut ent = default_ent(len);
        ent.plan = plan.clone();
        if rng.chance(1, 3) {
            ent.mtime = Some((FIXED_SEC, 500_000_000));
        }
        if rng.chance(1, 4) {
            ent.hdrs.push(("x-extra".into(), vec![b'x'; rng.range(1, 300) as usize]));
        }
        let n_cond = if thorough(&ctx) { 40 } else { 10 };
        let conds = cond_combos(&ent, &mut rng, n_cond);
        let ranges = range_values(len, &mut rng);
        for method in ["GET", "HEAD", "POST"] {
            for rv in &ranges {
                if sink.stopped() {
                    return;
                }
                for cond in &conds {
                    if method != "GET" && !cond.is_empty() && rng.chance(2, 3) {
                        continue;
                    }
                    let mut c = ServeCase::get(ent.clone());
                    c.method = method.into();
                    c.cap = cap_for(&plan, thorough(&ctx));
                    if let Some(rv) = rv {
                        c.hdrs.push(("range".into(), rv.clone()));
                    }
                    c.hdrs.extend(cond.iter().cloned());
                    c.data_kind = (c.hdrs.len() % 3 == 2) as u8; // a third with the multi-segment Data type
                    exec(&c, sink, judge);
                }
            }
        }
    }
}

/// Bodies of more than 4 MiB, drained completely (the ordinary workload stops at 64-256 KiB):
/// whole entity, one long range, a range that ends exactly where a 64 KiB chunk ends, two long parts.
pub fn long_body_n(ctx: &Ctx) -> usize {
    if ctx.leg.slow() { 0 } else if thorough(ctx) { 5 } else { 4 }
}

pub fn long_body_block(i: usize, sink: &mut Sink, judge: &ServeJudge) {
    const M4: u64 = 4 * 1024 * 1024;
    let len = [M4 + 1, M4 + 65_536, 6_000_000, 20_000_000, 70 * 1024 * 1024][i];
    let plans = [
        ChunkPlan::default(),
        ChunkPlan { sizes: vec![Sz::Abs(65_536), Sz::Abs(1)], pend_mask: 0, pend_period: 0, hint_exact: true },
        ChunkPlan { sizes: vec![Sz::Abs(65_536)], pend_mask: 0b1, pend_period: 32, hint_exact: false },
    ];
    for (pi, plan) in plans.iter().enumerate() {
        let ranges: Vec<Option<String>> = vec![
            None,
            Some(format!("bytes=7-{}", len - 1)),
            Some(format!("bytes=0-{}", M4 + 65_535)),
            Some(format!("bytes=0-{},{}-{}", len / 3, len / 2, len / 2 + len / 4)),
        ];
        for (ri, r) in ranges.iter().enumerate() {
            if len > 30_000_000 && (pi > 0 || ri > 1) {
                continue;
            }
            let mut ent = default_ent(len);
            ent.plan = plan.clone();
            let mut c = ServeCase::get(ent);
            c.cap = len + 1024;
            c.extra_polls = 1;
            if let Some(r) = r {
                c.hdrs.push(("range".into(), r.clone().into_bytes()));
            }
            exec(&c, sink, judge);
            sink.count("long_bodies_drained");
        }
    }
}

/// Many responses of every shape alive (built, not yet drained or dropped) at the same time,
/// then ordinary requests judged while they live.
pub fn many_live_block(sink: &mut Sink, judge: &ServeJudge) {
    if sink.ctx.leg.slow() {
        return;
    }
    for n_live in [70usize, 300, 1100] {
        let mut held: Vec<http::Response<http_serve::Body<bytes::Bytes, crate::ent::BoxError>>> = Vec::new();
        for i in 0..n_live {
            let ent = default_ent(5000);
            let (e, _rec) = crate::ent::MonEntity::<bytes::Bytes>::new(ent);
            let mut req = http::Request::builder().uri("/").body(()).unwrap();
            let r: &[u8] = match i % 3 {
                0 => b"bytes=0-1, 10-20, 4000-4100",
                1 => b"bytes=7-77",
                _ => b"",
            };
            if !r.is_empty() {
                req.headers_mut().insert("range", http::HeaderValue::from_bytes(r).unwrap());
            }
            if let Ok(resp) = crate::util::catch(|| http_serve::serve(e, &req)) {
                held.push(resp);
            }
        }
        for (i, r) in [&b"bytes=0-1, 10-20, 4000-4100"[..], b"bytes=7-77", b"", b"bytes=0-0,-1", b"bytes=100-199,50-149,4990-"].iter().enumerate() {
            for len in [5000u64, 100_000] {
                let mut ent = default_ent(len);
                if i % 2 == 1 {
                    ent.plan = chunk_plans()[2].clone();
                }
                let mut c = ServeCase::get(ent);
                c.cap = 1 << 18;
                if !r.is_empty() {
                    c.hdrs.push(("range".into(), r.to_vec()));
                }
                exec(&c, sink, judge);
                sink.count("requests_with_many_live_bodies");
            }
        }
        sink.max("max_live_bodies", held.len() as u64);
        drop(held);
    }
}

// =================================================================================== C02 ====

pub struct C02;

fn check_bytes_mode(mode: u8, data: &[u8], start: u64) -> Option<usize> {
    data.iter().enumerate().position(|(i, b)| *b != content_byte_mode(mode, start.wrapping_add(i as u64)))
}

pub fn c02_judge(c: &ServeCase, o: &ServeObs, sink: &mut Sink) -> (Verdict, Option<u64>) {
    if o.serve_panic.is_some() {
        return (Verdict::DontCare("serve panicked (C13)".into()), None);
    }
    let r = o.resp.as_ref().unwrap();
    let d = o.drain.as_ref().unwrap();
    let l = c.ent.len;
    if c.method != "GET" {
        return (Verdict::Ok, None);
    }
    let (start, want_len, kind) = match r.status {
        200 => (0u64, l, "200"),
        206 => {
            if let Some(ct) = r.get("content-type").filter(|ct| ct.starts_with(b"multipart/")) {
                // structure is C06's subject; here only: the bytes of every part are the entity
                // bytes that part's own Content-Range names
                let b = match multipart::boundary_of(ct) {
                    Some(b) => b,
                    None => return (Verdict::DontCare("multipart without readable boundary (C06)".into()), None),
                };
                let p = match multipart::parse(&d.data, &b, d.terminal == Terminal::End) {
                    Ok(p) => p,
                    Err(_) => return (Verdict::DontCare("unreadable multipart body (C06)".into()), None),
                };
                for part in &p.parts {
                    if part.total != l || part.last >= l {
                        return (Verdict::viol("content-range-bounds|part", format!("part Content-Range {}-{}/{} for entity length {}", part.first, part.last, part.total, l)), None);
                    }
                    let data = &d.data[part.data_off..part.data_off + part.data_present];
                    if let Some(i) = check_bytes_mode(c.ent.content_mode, data, part.first) {
                        return (
                            Verdict::viol("wrong-byte|multipart-part", format!("part labelled {}-{}: byte {} is not entity byte {} (get_range calls {:?})", part.first, part.last, i, part.first + i as u64, o.rec.get_range)),
                            None,
                        );
                    }
                    sink.add("bytes_verified", data.len() as u64);
                }
                sink.count("multipart_parts_verified");
                return (Verdict::Ok, Some(hash64(c)));
            }
            match r.get("content-range").and_then(parse_content_range) {
                Some(ContentRange::Range(a, b, t)) => {
                    if !(a <= b && b < t && t == l) {
                        return (
                            Verdict::viol("content-range-bounds", format!("Content-Range {:?} for entity length {}", show(r.get("content-range").unwrap()), l)),
                            None,
                        );
                    }
                    (a, b - a + 1, "206")
                }
                _ => {
                    return (
                        Verdict::viol("content-range-syntax", format!("single-range 206 with Content-Range {:?}", r.get("content-range").map(show))),
                        None,
                    )
                }
            }
        }
        _ => return (Verdict::Ok, None),
    };
    if let Some(i) = check_bytes_mode(c.ent.content_mode, &d.data, start) {
        return (
            Verdict::viol(
                format!("wrong-byte|{}", kind),
                format!("body byte {} is {:#04x}, entity byte {} is {:#04x} (get_range calls {:?})", i, d.data[i], start + i as u64, content_byte_mode(c.ent.content_mode, start + i as u64), o.rec.get_range),
            ),
            None,
        );
    }
    match &d.terminal {
        Terminal::End => {
            if d.total != want_len {
                return (
                    Verdict::viol(format!("wrong-length|{}", kind), format!("headers denote {} bytes from {}, body delivered {}", want_len, start, d.total)),
                    None,
                );
            }
        }
        Terminal::Capped => {
            if d.total > want_len {
                return (Verdict::viol(format!("wrong-length|{}", kind), format!("headers denote {} bytes, body delivered at least {}", want_len, d.total)), None);
            }
            sink.count("undrained_prefix_only");
        }
        t => {
            return (
                Verdict::viol(format!("incomplete|{}|{}", kind, terminal_str(t)), format!("honest entity, yet body terminated with {:?} after {} of {} bytes", t, d.total, want_len)),
                None,
            )
        }
    }
    sink.add("bytes_verified", d.data.len() as u64);
    if kind == "206" {
        sink.count("single_206_verified");
    } else {
        sink.count("full_200_verified");
    }
    let nt = if !d.data.is_empty() { Some(hash64(c)) } else { None };
    (Verdict::Ok, nt)
}

fn c02_positions(l: u64) -> Vec<u64> {
    let mut v = vec![0, 1, l / 2, l.saturating_sub(2), l.saturating_sub(1), l, l.saturating_add(1)];
    for b in [65_535u64, 65_536, 65_537] {
        if b < l {
            v.push(b);
        }
    }
    v.sort_unstable();
    v.dedup();
    v
}

impl Prop for C02 {
    fn id(&self) -> &'static str {
        "C02"
    }
    fn level(&self) -> &'static str {
        "exploration"
    }
    fn rule(&self, _: &Ctx) -> String {
        "block = entity length x chunk plan; inside: full-body GET and every single-range form (a-b, a-, -n) with a,b,n in {0,1,mid,L-2,L-1,L,L+1, 64 KiB boundaries} (all a,b in 0..L+1 for L <= 12); position-hash content. Non-trivial = distinct case whose 200/206 body bytes (>= 1) were compared byte for byte with the entity bytes the headers denote".into()
    }
    fn n_blocks(&self, ctx: &Ctx) -> usize {
        let s = c01_space(ctx);
        (s.lens.len() + 12) * s.plans.len() + if thorough(ctx) && !ctx.leg.slow() { 256 } else { 16 } + long_body_n(ctx)
    }
    fn run_block(&self, b: usize, sink: &mut Sink) {
        let ctx = sink.ctx.clone();
        let s = c01_space(&ctx);
        let np = s.plans.len();
        let n_before_long = (s.lens.len() + 12) * np + if thorough(&ctx) && !ctx.leg.slow() { 256 } else { 16 };
        if b >= n_before_long {
            long_body_block(b - n_before_long, sink, &c02_judge);
            return;
        }
        if b >= (s.lens.len() + 12) * np {
            // seeded random lengths, ranges and chunk plans
            let mut rng = Rng::from_parts(ctx.seed, &[2, b as u64]);
            let n = if ctx.leg.slow() { 20 } else if thorough(&ctx) { 1500 } else { 300 };
            for _ in 0..n {
                if sink.stopped() {
                    return;
                }
                let bits = rng.range(1, 63);
                let len = 1 + rng.below(1u64 << bits);
                let mut ent = default_ent(len);
                let k = rng.range(1, 4) as usize;
                ent.plan = ChunkPlan {
                    sizes: (0..k).map(|_| if rng.chance(1, 5) { Sz::Rem(rng.below(5) as u32) } else { Sz::Abs(*rng.pick(&[0u32, 1, 2, 3, 7, 64, 1000, 4096, 65_535, 65_536])) }).collect(),
                    pend_mask: if rng.chance(1, 4) { rng.below(7) as u32 } else { 0 },
                    pend_period: 3,
                    hint_exact: rng.chance(1, 3),
                };
                if ent.plan.sizes.iter().all(|s| matches!(s, Sz::Abs(0))) {
                    ent.plan.sizes.push(Sz::Abs(5));
                }
                let a = rng.below(len);
                let span = if rng.chance(1, 2) { rng.below(200_000) } else { rng.below(len - a) };
                let e = a.saturating_add(span).min(len - 1);
                let v = match rng.below(4) {
                    0 => format!("bytes={}-", len - 1 - rng.below(len.min(100_000))),
                    1 => format!("bytes=-{}", 1 + rng.below(len.min(100_000))),
                    _ => format!("bytes={}-{}", a, e),
                };
                if rng.chance(1, 4) {
                    ent.content_mode = 1;
                }
                let mut c = ServeCase::get(ent);
                c.cap = if plan_is_small_chunks(&c.ent.plan) { 4096 } else { 1 << 18 };
                c.hdrs.push(("range".into(), v.into_bytes()));
                exec(&c, sink, &c02_judge);
            }
            // one body of very many frames (byte by byte over 70 000 bytes)
            let mut ent = default_ent(200_000 + b as u64);
            ent.plan = ChunkPlan { sizes: vec![Sz::Abs(1)], pend_mask: 0, pend_period: 0, hint_exact: false };
            let mut c = ServeCase::get(ent);
            c.cap = 1 << 20;
            c.hdrs.push(("range".into(), format!("bytes={}-{}", 1000 + b, 71_000 + b).into_bytes()));
            exec(&c, sink, &c02_judge);
            sink.count("bodies_of_70000_frames");
            return;
        }
        let li = b / np;
        // the first 12 blocks-per-plan are the exhaustive small lengths 1..=12
        let (len, exhaustive) = if li < 12 { (li as u64 + 1, true) } else { (s.lens[li - 12], false) };
        let plan = s.plans[b % np].clone();
        let mut ent = default_ent(len);
        ent.plan = plan.clone();
        let pos: Vec<u64> = if exhaustive { (0..=len + 1).collect() } else { c02_positions(len) };
        let mut values: Vec<Option<String>> = vec![None];
        for &a in &pos {
            values.push(Some(format!("bytes={}-", a)));
            values.push(Some(format!("bytes=-{}", a)));
            for &bb in &pos {
                values.push(Some(format!("bytes={}-{}", a, bb)));
            }
        }
        // multi-range requests (ascending, descending, suffix first, overlapping): the bytes of each
        // part must be the ones its own Content-Range names
        if len >= 400 {
            let q = len / 4;
            for v in [
                format!("bytes=0-9,{}-{}", q, q + 9),
                format!("bytes={}-{},0-9", q, q + 9),
                format!("bytes=-7,0-3"),
                format!("bytes={}-{},{}-{},{}-{}", 3 * q, 3 * q + 2, q, q + 4, 2 * q, 2 * q),
                format!("bytes={}-,5-5", len - 3),
                format!("bytes=10-20,15-25,12-13"),
            ] {
                values.push(Some(v));
            }
        }
        // near the end of giant entities: complete equality on short ranges
        if len > 1 << 20 {
            values.push(Some("bytes=-5".into()));
            values.push(Some(format!("bytes={}-", len - 3)));
            values.push(Some(format!("bytes={}-{}", len - 70_000, len - 1)));
        }
        for v in values {
            if sink.stopped() {
                return;
            }
            let mut c = ServeCase::get(ent.clone());
            c.cap = cap_for(&plan, thorough(&ctx));
            if let Some(v) = v {
                c.data_kind = (v.len() % 3 == 0) as u8;
                c.hdrs.push(("range".into(), v.into_bytes()));
            }
            exec(&c, sink, &c02_judge);
        }
    }
    fn replay(&self, case: &Value, sink: &mut Sink) {
        replay_serve(&c02_judge, case, sink);
    }
    fn floors(&self, _: &Ctx) -> Vec<(&'static str, u64)> {
        vec![("single_206_verified", 1000), ("full_200_verified", 100), ("multipart_parts_verified", 100)]
    }
    fn assumptions(&self) -> Vec<String> {
        vec!["which range a header should select is C03's oracle; here the bytes are compared with what the response's own status and Content-Range denote".into(),
             "bodies above the drain cap are compared on the drained prefix; short ranges at the far end of giant entities are compared completely".into()]
    }
}

// =================================================================================== C03 ====

pub struct C03;

#[derive(Debug, Clone, PartialEq, Eq)]
enum Got {
    Full,
    Single(u64, u64),
    Multi(Vec<(u64, u64)>, bool /* complete list */),
    Unsat,
    TooLarge,
    Bad(String),
}

/// Reads back what the response did with the Range header.
fn c03_got(c: &ServeCase, o: &ServeObs) -> Got {
    if let Some(p) = &o.serve_panic {
        return Got::Bad(format!("panic@{}", norm_loc(p)));
    }
    let r = o.resp.as_ref().unwrap();
    let d = o.drain.as_ref().unwrap();
    let l = c.ent.len;
    if let Terminal::Panic(p) = &d.terminal {
        return Got::Bad(format!("drain-panic@{}", norm_loc(p)));
    }
    match r.status {
        200 => {
            if r.get("content-range").is_some() {
                return Got::Bad("200-with-content-range".into());
            }
            if r.get_u64("content-length") != Some(l) {
                return Got::Bad("200-not-complete".into());
            }
            Got::Full
        }
        206 => {
            // a multipart answer has no Content-Range of its own (an entity may itself be of a
            // multipart type; a single-range 206 then carries that type *and* a Content-Range)
            if let Some(ct) = r.get("content-type").filter(|ct| r.get("content-range").is_none() && ct.len() >= 20 && ct[..20].eq_ignore_ascii_case(b"multipart/byteranges")) {
                let b = match multipart::boundary_of(ct) {
                    Some(b) => b,
                    None => return Got::Bad("multipart-without-boundary".into()),
                };
                if c.method == "HEAD" {
                    return Got::Bad("head".into());
                }
                let complete = d.terminal == Terminal::End;
                match multipart::parse(&d.data, &b, complete) {
                    Ok(p) => {
                        if p.parts.iter().any(|p| p.total != l) {
                            return Got::Bad("multipart-part-total".into());
                        }
                        Got::Multi(p.parts.iter().map(|p| (p.first, p.last)).collect(), p.closed)
                    }
                    Err(e) => Got::Bad(format!("multipart-unreadable:{}", e.split(':').next().unwrap_or(""))),
                }
            } else {
                match r.get("content-range").and_then(parse_content_range) {
                    Some(ContentRange::Range(a, b, t)) if t == l => Got::Single(a, b),
                    _ => Got::Bad("206-content-range".into()),
                }
            }
        }
        416 => match r.get("content-range").and_then(parse_content_range) {
            Some(ContentRange::Unsat(t)) if t == l => Got::Unsat,
            _ => Got::Bad("416-content-range".into()),
        },
        413 => Got::TooLarge,
        s => Got::Bad(format!("status-{}", s)),
    }
}

fn got_kind(g: &Got) -> String {
    match g {
        Got::Full => "200".into(),
        Got::Single(..) => "206".into(),
        Got::Multi(..) => "multipart".into(),
        Got::Unsat => "416".into(),
        Got::TooLarge => "413".into(),
        Got::Bad(s) => s.clone(),
    }
}

fn exp_kind(e: &Expect) -> &'static str {
    match e {
        Expect::Full => "200",
        Expect::Unsat => "416",
        Expect::Single(..) => "206",
        Expect::Multi { .. } => "multi",
    }
}

/// Could a legitimately formatted multipart body for these ranges exceed u64 (=> 413 allowed)?
fn multipart_may_overflow(ranges: &[(u64, u64)], ent: &EntSpec) -> bool {
    let hdr_bytes: u128 = ent.hdrs.iter().map(|(k, v)| (k.len() + v.len() + 4) as u128).sum();
    let mut t: u128 = 0;
    for (a, b) in ranges {
        // CRLF -- boundary(<=70) CRLF "Content-Range: bytes a-b/L" CRLF hdrs CRLF
        t += 2 + 2 + 70 + 2 + 21 + 62 + 2 + hdr_bytes + 2 + (*b - *a) as u128 + 1;
    }
    t + 78 > u64::MAX as u128
}

fn matches_expect(e: &Expect, g: &Got, ent: &EntSpec) -> bool {
    match (e, g) {
        (Expect::Full, Got::Full) => true,
        (Expect::Unsat, Got::Unsat) => true,
        (Expect::Single(a, b), Got::Single(x, y)) => a == x && b == y,
        (Expect::Multi { must_multipart, .. }, Got::Full) => !must_multipart,
        (Expect::Multi { ranges, must_full, .. }, Got::Multi(got, complete)) => {
            !must_full && if *complete { got == ranges } else { got.len() <= ranges.len() && got[..] == ranges[..got.len()] }
        }
        (Expect::Multi { ranges, .. }, Got::TooLarge) => multipart_may_overflow(ranges, ent),
        _ => false,
    }
}

pub fn c03_judge(c: &ServeCase, o: &ServeObs, sink: &mut Sink) -> (Verdict, Option<u64>) {
    // the property speaks about GET requests whose Range header is what decides: Range alone, or
    // next to preconditions that let the request through and an If-Range that must be honoured
    if c.method != "GET" {
        return (Verdict::DontCare("not a GET".into()), None);
    }
    if c.hdrs.iter().any(|(k, _)| !k.eq_ignore_ascii_case("range")) || c.hdrs.len() > 1 {
        const KNOWN: [&str; 6] = ["range", "if-range", "if-match", "if-none-match", "if-modified-since", "if-unmodified-since"];
        let mut seen: Vec<String> = Vec::new();
        for (k, _) in &c.hdrs {
            let k = k.to_ascii_lowercase();
            if !KNOWN.contains(&k.as_str()) || seen.contains(&k) {
                return (Verdict::DontCare("header outside the judged set, or repeated".into()), None);
            }
            seen.push(k);
        }
        let im = c.hdr("if-match").map(cond::parse_tag_list);
        let inm = c.hdr("if-none-match").map(cond::parse_tag_list);
        let pre = match (hdr_date_secs(c.hdr("if-modified-since")), hdr_date_secs(c.hdr("if-unmodified-since"))) {
            (Ok(ims), Ok(ius)) => cond::evaluate(c.ent.etag.as_deref(), c.ent.mtime.map(|m| m.0), im.as_ref(), inm.as_ref(), ims, ius),
            _ => None,
        };
        if pre != Some(cond::Outcome::Continue) {
            return (Verdict::DontCare("a precondition does not (clearly) let the request through".into()), None);
        }
        if let Some(v) = c.hdr("if-range") {
            if !(cond::is_tag(v) && !cond::is_weak(v) && c.ent.etag.as_deref() == Some(v)) {
                return (Verdict::DontCare("If-Range that need not be honoured (C05)".into()), None);
            }
        }
        sink.count("judged_next_to_other_headers");
    }
    let rv = match c.hdr("range") {
        Some(v) => v,
        None => return (Verdict::Ok, None),
    };
    let acc = match rmodel::expect(rv, c.ent.len) {
        None => return (Verdict::DontCare("lenient list form or L = 0: property silent".into()), None),
        Some(a) => a,
    };
    let got = c03_got(c, o);
    if acc.iter().any(|e| matches_expect(e, &got, &c.ent)) {
        sink.count(&format!("outcome_{}", got_kind(&got)));
        let nt = match (&acc[0], &got) {
            (Expect::Full, _) => None,
            _ => Some(hash64(&(&c.hdrs, c.ent.len))),
        };
        if nt.is_some() {
            sink.count("grammatical_sets_judged");
        }
        return (Verdict::Ok, nt);
    }
    let sig = format!("expected={}|got={}", exp_kind(&acc[0]), got_kind(&got));
    (
        Verdict::viol(
            sig,
            format!("Range {:?} on length {}: model allows {:?}, response was {:?}", show(rv), c.ent.len, acc, got),
        ),
        None,
    )
}

fn spec_strings(l: u64) -> Vec<String> {
    let mut v = Vec::new();
    for a in 0..=l + 2 {
        v.push(format!("{}-", a));
        v.push(format!("-{}", a));
        for b in 0..=l + 2 {
            v.push(format!("{}-{}", a, b));
        }
    }
    v
}

const NEAR_MISSES: &[&str] = &[
    "bytes=+1-2", "bytes=1-+2", "bytes=-+5", "bytes=1 -2", "bytes=1- 2", "bytes=0x1-2", "bytes=1-2;", "bytes=1-2-3",
    "bytes =1-2", "bytes=", "bytes=-", "bytes=1", "bytes=a-b", "items=1-2", "bytes 1-2", "", "bytes=1-2,a", "bytes=--1",
    "bytes=1--2", "bytes=-1-", "bytes=1-2,+3-4", "bytes=1_000-2", "bytes=1.0-2", "bytes=١-٢", "bytes=1-2,3", "bytes:1-2",
    "bytes=-5 ", "bytes=0-0,-+1", "bytes=+0-", "none", "bytes=0-0\t", "seconds=1-2", "bytes=- 5", "bytes=1-2, -+3",
];

struct C03Space {
    /// (kind, a, b): 0 = exhaustive pairs for length a with first spec index stripe b; 1 = boundary; 2 = threshold; 3 = near-miss
    blocks: Vec<(u8, u64, u64)>,
}

fn c03_space(ctx: &Ctx) -> C03Space {
    let mut blocks = Vec::new();
    let max_l = if ctx.leg.slow() { 2 } else if thorough(ctx) { 8 } else { 5 };
    for l in 1..=max_l {
        // stripes over the first spec so that blocks are balanced
        let n = spec_strings(l).len() as u64;
        let stripes = if l >= 6 { 16 } else if l >= 4 { 4 } else { 1 };
        for s in 0..stripes.min(n) {
            blocks.push((0, l, s));
        }
    }
    for (i, _) in C03_BOUNDARY_LENS.iter().enumerate() {
        for k in 0..4 {
            blocks.push((1, i as u64, k));
        }
    }
    for (li, _) in C03_THRESHOLD_LENS.iter().enumerate() {
        for n in 2..=8 {
            blocks.push((2, li as u64, n));
        }
    }
    blocks.push((3, 0, 0));
    // requests with very many specs (kind 4: a = index into MANY_LENS)
    if !ctx.leg.slow() {
        for (i, _) in C03_MANY_LENS.iter().enumerate() {
            blocks.push((4, i as u64, 0));
        }
    }
    C03Space { blocks }
}

const C03_MANY_LENS: [u64; 3] = [4_000_000, 1 << 32, u64::MAX];

pub const C03_THRESHOLD_LENS: [u64; 5] = [1000, 5000, 1_000_000, 1 << 63, u64::MAX];

/// Requests with n ranges whose total payload walks across the decision lines of the multipart
/// estimate (sum + 80n vs L/4, L/2, L and sum vs L), for entities with no, some and many header
/// bytes (the real multipart overhead per part grows with them; the estimate does not).
pub fn c03_threshold_cases(l: u64, n: u64) -> Vec<ServeCase> {
    let (li, ni) = (l as i128, n as i128);
    let mut sums: Vec<i128> = Vec::new();
    for base in [li / 4 - 80 * ni, li / 2 - 80 * ni, li - 80 * ni, li] {
        for d in -3i128..=3 {
            sums.push(base + d);
        }
    }
    for d in 0..16i128 {
        sums.push(li - 80 * ni - d); // just inside the estimate, where the exact length may not fit
    }
    sums.retain(|s| *s >= ni && *s <= li);
    sums.sort_unstable();
    sums.dedup();
    let hdr_sets: Vec<Vec<(String, Vec<u8>)>> = vec![
        vec![],
        vec![("content-type".into(), b"application/octet-stream".to_vec()), ("content-disposition".into(), b"attachment; filename=\"a-rather-long-file-name.bin\"".to_vec())],
        vec![("content-type".into(), b"text/plain".to_vec()), ("x-meta".into(), vec![b'm'; 230])],
        vec![("x-long".into(), vec![b'v'; 1000])],
    ];
    let mut out = Vec::new();
    for sum in sums {
        for layout in 0..5 {
            let each = sum / ni;
            let mut lens: Vec<i128> = vec![each; n as usize];
            lens[0] += sum - each * ni;
            if layout >= 3 {
                // uneven: all ranges tiny except one that carries (almost) the whole payload
                lens = vec![if layout == 3 { 1 } else { 5 }; n as usize];
                let rest = sum - lens.iter().sum::<i128>() + lens[n as usize - 1];
                lens[n as usize - 1] = rest;
            }
            if lens.iter().any(|x| *x <= 0 || *x > li) {
                continue;
            }
            let mut specs = Vec::new();
            let mut at: i128 = 0;
            for (i, ln) in lens.iter().enumerate() {
                let start = match layout {
                    1 | 4 => (i as i128 * 7) % (li - ln + 1),
                    _ => {
                        if at + ln > li {
                            at = 0;
                        }
                        let s = at;
                        at += ln;
                        s
                    }
                };
                specs.push(format!("{}-{}", start, start + ln - 1));
            }
            if layout == 2 {
                specs.reverse();
            }
            for (hi, hdrs) in hdr_sets.iter().enumerate() {
                if hi > 0 && layout == 1 {
                    continue;
                }
                let _ = layout;
                let ent = EntSpec { len: l, hdrs: hdrs.clone(), ..Default::default() };
                let mut c = ServeCase::get(ent);
                c.cap = 1 << 14;
                c.extra_polls = 0;
                c.hdrs.push(("range".into(), format!("bytes={}", specs.join(",")).into_bytes()));
                c.data_kind = ((out.len() % 3) == 2) as u8;
                out.push(c);
            }
        }
    }
    out
}

const C03_BOUNDARY_LENS: [u64; 8] = [1, 10, 240, 1000, 65_536, 1 << 32, 1 << 63, u64::MAX];

fn c03_boundary_positions(l: u64) -> Vec<String> {
    let mut v: Vec<u128> = vec![0, 1, 2, 1 << 32, 1 << 63, (1u128 << 64) - 2, (1u128 << 64) - 1, 1u128 << 64, 10u128.pow(30)];
    let l = l as u128;
    for d in [-2i8, -1, 0, 1, 2] {
        let x = l as i128 + d as i128;
        if x >= 0 {
            v.push(x as u128);
        }
    }
    v.push(l / 2);
    v.sort_unstable();
    v.dedup();
    let mut out: Vec<String> = v.iter().map(|x| x.to_string()).collect();
    // 1*DIGIT allows leading zeros: the same values written with 21 and 40 digits
    for x in [0u128, 1, 5, l.saturating_sub(1), l, l + 1] {
        out.push(format!("{:021}", x));
        out.push(format!("{:040}", x));
        out.push(format!("0{}", x));
    }
    out
}

impl Prop for C03 {
    fn id(&self) -> &'static str {
        "C03"
    }
    fn level(&self) -> &'static str {
        "exploration"
    }
    fn rule(&self, ctx: &Ctx) -> String {
        format!("requests carrying only Range; every fifth one again for an entity with ETag and modification time next to one header that must not change the outcome (passing If-Match / If-None-Match / If-Unmodified-Since / If-Modified-Since, strongly matching If-Range). (a) exhaustive: entity lengths 1..={}, all sets of 1..{} specs in the three forms with positions 0..=L+2, separators ',' ', ' ',\\t'; (b) boundary: lengths {:?} with positions {{0,1,2,L-2..L+2,L/2,2^32,2^63,2^64-2,2^64-1,2^64,10^30}}, 1..4 specs; (c) multipart threshold sweep on L in {{1000,5000,10^6,2^63,2^64-1}} with 2..8 ranges around the 'plus 80 each under half' and 'sum >= L' lines and just inside 'sum + 80n < L', for entities with 0 / 80 / 250 / 1000 header bytes; (d) near-misses outside the grammar; (e) requests with 21 .. 5000 specs (disjoint, chained overlaps, descending, identical, nested, shuffled chains, pseudo-random overlaps) on entities of 4 MB, 2^32 and 2^64-1 bytes. Non-trivial = distinct (Range value, L) that is a grammatical bytes= set and was compared with the RFC 7233 model (status, Content-Range, parsed multipart ranges)",
            if thorough(ctx) { 8 } else { 5 }, if thorough(ctx) { 3 } else { 2 }, C03_BOUNDARY_LENS)
    }
    fn n_blocks(&self, ctx: &Ctx) -> usize {
        c03_space(ctx).blocks.len()
    }
    fn exhaustive(&self, _: &Ctx) -> bool {
        false
    }
    fn run_block(&self, b: usize, sink: &mut Sink) {
        let ctx = sink.ctx.clone();
        let sp = c03_space(&ctx);
        let (kind, x, y) = sp.blocks[b];
        let mut rng = Rng::from_parts(ctx.seed, &[3, b as u64]);
        let run = |l: u64, value: &[u8], sink: &mut Sink| {
            let mut ent = EntSpec { len: l, ..Default::default() };
            if l % 3 == 1 {
                ent.hdrs.push(("content-type".into(), b"text/plain".to_vec()));
            }
            // every seventh request: one of the other entity header sets (repeated names, a
            // stored Content-Encoding, a multipart type, a 4 KiB value)
            let hh = hash64(&(value, l, 77u8));
            if hh % 7 == 0 {
                let sets = c06_hdr_sets();
                ent.hdrs = sets[1 + (hh / 7) as usize % (sets.len() - 1)].clone();
                if ent.hdrs.iter().map(|(k, v)| k.len() + v.len()).sum::<usize>() > 1000 && l < 100_000 {
                    ent.hdrs.truncate(0);
                    ent.hdrs.push(("content-encoding".into(), b"br".to_vec()));
                }
            }
            let mut c = ServeCase::get(ent);
            c.cap = 1 << 14;
            c.extra_polls = 0;
            c.hdrs.push(("range".into(), value.to_vec()));
            c.data_kind = (hash64(&(l, value)) % 3 == 1) as u8; // a third with the multi-segment Data type
            exec(&c, sink, &c03_judge);
            // every fifth request once more for an entity with validators, next to a header that
            // must not change the outcome
            let h = hash64(&(value, l));
            if h % 5 == 0 {
                let strong = (h / 5) % 3 != 0;
                c.ent.etag = Some(if strong { b"\"v1\"".to_vec() } else { b"W/\"v1\"".to_vec() });
                c.ent.mtime = Some((FIXED_SEC, 500_000_000));
                let (k, v): (&str, Vec<u8>) = match (h / 15) % 6 {
                    0 => ("if-match", b"*".to_vec()),
                    1 => ("if-none-match", b"\"nope\"".to_vec()),
                    2 => ("if-unmodified-since", fmt_date(FIXED_SEC + 1, DateStyle::Imf).into_bytes()),
                    3 => ("if-modified-since", fmt_date(FIXED_SEC - 1, DateStyle::Imf).into_bytes()),
                    4 if strong => ("if-range", b"\"v1\"".to_vec()),
                    _ => ("if-none-match", b"W/\"zz\", \"a, b\"".to_vec()),
                };
                c.hdrs.insert(0, (k.into(), v));
                exec(&c, sink, &c03_judge);
            }
        };
        match kind {
            0 => {
                let l = x;
                let specs = spec_strings(l);
                let stripes = if l >= 6 { 16 } else if l >= 4 { 4 } else { 1 };
                let max_specs = if thorough(&ctx) { 3 } else { 2 };
                for (i, s1) in specs.iter().enumerate() {
                    if i as u64 % stripes != y {
                        continue;
                    }
                    run(l, format!("bytes={}", s1).as_bytes(), sink);
                    for (j, s2) in specs.iter().enumerate() {
                        let sep = [",", ", ", ",\t"][(i + j) % 3];
                        run(l, format!("bytes={}{}{}", s1, sep, s2).as_bytes(), sink);
                        if max_specs >= 3 {
                            for (k, s3) in specs.iter().enumerate() {
                                let sep2 = [", ", ",", ",  "][(j + k) % 3];
                                run(l, format!("bytes={}{}{}{}{}", s1, sep, s2, sep2, s3).as_bytes(), sink);
                            }
                        }
                    }
                    if sink.stopped() {
                        return;
                    }
                }
            }
            1 => {
                let l = C03_BOUNDARY_LENS[x as usize];
                let n_specs = y as usize + 1;
                let pos = c03_boundary_positions(l);
                let mut specs: Vec<String> = Vec::new();
                for a in &pos {
                    specs.push(format!("{}-", a));
                    specs.push(format!("-{}", a));
                    for b2 in &pos {
                        specs.push(format!("{}-{}", a, b2));
                    }
                }
                if n_specs == 1 {
                    for s in &specs {
                        if sink.stopped() {
                            return;
                        }
                        run(l, format!("bytes={}", s).as_bytes(), sink);
                    }
                } else {
                    let n = if thorough(&ctx) { 60_000 } else { 6_000 };
                    for _ in 0..n {
                        if sink.stopped() {
                            return;
                        }
                        let mut v = String::from("bytes=");
                        for i in 0..n_specs {
                            if i > 0 {
                                let seps: [&str; 4] = [",", ", ", ",\t", ",  "];
                                v.push_str(*rng.pick(&seps));
                            }
                            v.push_str(rng.pick(&specs).as_str());
                        }
                        run(l, v.as_bytes(), sink);
                    }
                }
            }
            2 => {
                for c in c03_threshold_cases(C03_THRESHOLD_LENS[x as usize], y) {
                    exec(&c, sink, &c03_judge);
                }
            }
            4 => {
                let l = C03_MANY_LENS[x as usize];
                for n in crate::gen::MANY_COUNTS {
                    for layout in 0..crate::gen::MANY_LAYOUTS {
                        let ent = EntSpec { len: l, hdrs: if layout == 1 { vec![("content-type".into(), b"text/plain".to_vec())] } else { vec![] }, ..Default::default() };
                        let mut c = ServeCase::get(ent);
                        c.cap = 1 << 23; // the whole multipart body, so that every part is read back
                        c.extra_polls = 0;
                        c.hdrs.push(("range".into(), crate::gen::many_ranges(l, n, layout)));
                        c.data_kind = (layout % 2) as u8;
                        exec(&c, sink, &c03_judge);
                        sink.count("many_spec_requests");
                    }
                }
            }
            _ => {
                for l in [1u64, 10, 240, u64::MAX] {
                    for nm in NEAR_MISSES {
                        run(l, nm.as_bytes(), sink);
                        sink.count("near_misses");
                    }
                }
            }
        }
    }
    fn replay(&self, case: &Value, sink: &mut Sink) {
        replay_serve(&c03_judge, case, sink);
    }
    fn floors(&self, _: &Ctx) -> Vec<(&'static str, u64)> {
        vec![("grammatical_sets_judged", 10_000), ("outcome_multipart", 100), ("outcome_416", 100), ("outcome_206", 1000), ("outcome_200", 100), ("near_misses", 100)]
    }
    fn assumptions(&self) -> Vec<String> {
        vec![
            "not judged (property silent): L = 0; list forms only a lenient recipient accepts (empty elements, OWS before a comma or after '=', unit in another case)".into(),
            "a spec with last < first, or a number above 2^64-1, may be treated either as the RFC resolves it or as an ignored header (complete 200); it must not fail".into(),
            "413 is accepted for a multi-range request only if a multipart body for the model's ranges could exceed 2^64-1 bytes".into(),
        ]
    }
}

// =================================================================================== C04 ====

pub struct C04;

fn hdr_date_secs(v: Option<&[u8]>) -> Result<Option<u64>, ()> {
    match v {
        None => Ok(None),
        Some(v) => {
            let s = std::str::from_utf8(v).map_err(|_| ())?;
            let t = httpdate::parse_http_date(s).map_err(|_| ())?;
            Ok(Some(t.duration_since(std::time::UNIX_EPOCH).map_err(|_| ())?.as_secs()))
        }
    }
}

fn c04_judge(c: &ServeCase, o: &ServeObs, sink: &mut Sink) -> (Verdict, Option<u64>) {
    if let Some(p) = &o.serve_panic {
        return (Verdict::viol(format!("panic@{}", norm_loc(p)), format!("serve panicked: {}", p)), None);
    }
    let r = o.resp.as_ref().unwrap();
    let im = c.hdr("if-match").map(cond::parse_tag_list);
    let inm = c.hdr("if-none-match").map(cond::parse_tag_list);
    let (ims, ius) = match (hdr_date_secs(c.hdr("if-modified-since")), hdr_date_secs(c.hdr("if-unmodified-since"))) {
        (Ok(a), Ok(b)) => (a, b),
        _ => return (Verdict::DontCare("malformed date validator".into()), None),
    };
    let want = match cond::evaluate(c.ent.etag.as_deref(), c.ent.mtime.map(|m| m.0), im.as_ref(), inm.as_ref(), ims, ius) {
        None => return (Verdict::DontCare("malformed or lenient tag list".into()), None),
        Some(w) => w,
    };
    let ok = match want {
        cond::Outcome::PreconditionFailed => r.status == 412,
        cond::Outcome::NotModified => r.status == 304,
        cond::Outcome::Continue => {
            // processing continues to range selection
            match c.hdr("range") {
                Some(b"bytes=0-0") | Some(b"bytes=2-3") if c.ent.len > 5 && c.hdr("if-range").is_none() => r.status == 206,
                // two ranges on a 10-byte entity: not smaller than the entity as multipart, so the
                // whole entity (200) is as good an answer as a 206
                Some(b"bytes=0-1, 4-5") if c.hdr("if-range").is_none() => r.status == 200 || r.status == 206,
                Some(b"bytes=100-") if c.ent.len <= 100 && c.hdr("if-range").is_none() => r.status == 416,
                _ => r.status == 200 || r.status == 206 || r.status == 416,
            }
        }
    };
    sink.count(&format!("model_{:?}", want));
    let any_cond = im.is_some() || inm.is_some() || ims.is_some() || ius.is_some();
    if ok {
        return (Verdict::Ok, if any_cond { Some(hash64(c)) } else { None });
    }
    let class = format!(
        "im={}|inm={}|ius={}|ims={}|subsec={}",
        match &im { None => "-", Some(TagList::Star) => "*", Some(_) => "list" },
        match &inm { None => "-", Some(TagList::Star) => "*", Some(_) => "list" },
        match (ius, c.ent.mtime) { (Some(u), Some(m)) => if u < m.0 { "before" } else if u == m.0 { "equal" } else { "after" }, (Some(_), None) => "nomtime", _ => "-" },
        match (ims, c.ent.mtime) { (Some(u), Some(m)) => if u < m.0 { "before" } else if u == m.0 { "equal" } else { "after" }, (Some(_), None) => "nomtime", _ => "-" },
        c.ent.mtime.is_some_and(|m| m.1 != 0),
    );
    (
        Verdict::viol(
            format!("want={:?}|got={}|{}", want, r.status, class),
            format!("model says {:?}, status was {} (etag {:?}, mtime {:?}, headers {:?})", want, r.status, c.ent.etag.as_deref().map(show), c.ent.mtime, c.hdrs.iter().map(|(k, v)| format!("{}: {}", k, show(v))).collect::<Vec<_>>()),
        ),
        None,
    )
}

fn c04_etags() -> Vec<Option<Vec<u8>>> {
    vec![None, Some(b"\"v1\"".to_vec()), Some(b"W/\"v1\"".to_vec()), Some(b"\"a, b\"".to_vec()), Some(b"\"x y\"".to_vec()), Some(b"\"\xe9t\xe9\"".to_vec())]
}

fn c04_mtimes() -> Vec<Option<(u64, u32)>> {
    // the last two lie in the future (an hour ahead of the wall clock, and the year 3000): the
    // statement compares with "the second in which the entity was last modified", whenever that is
    let now = std::time::SystemTime::now().duration_since(std::time::UNIX_EPOCH).map(|d| d.as_secs()).unwrap_or(FIXED_SEC);
    vec![None, Some((FIXED_SEC, 0)), Some((FIXED_SEC, 1_000_000)), Some((FIXED_SEC, 500_000_000)), Some((FIXED_SEC, 999_999_999)), Some((now + 3600, 250_000_000)), Some((32_503_680_000, 5))]
}

/// Options for an If-Match / If-None-Match header for an entity with this ETag.
fn tag_list_options(etag: Option<&[u8]>, big: bool, rng: &mut Rng) -> Vec<Option<Vec<u8>>> {
    let tv = tag_variants(etag);
    let mut v: Vec<Option<Vec<u8>>> = vec![None, Some(b"*".to_vec())];
    for t in &tv {
        v.push(Some(t.clone()));
    }
    for (i, a) in tv.iter().enumerate() {
        for (j, b) in tv.iter().enumerate() {
            if big {
                v.push(Some(join_tags(&[a, b], b",")));
                v.push(Some(join_tags(&[a, b], b", ")));
            } else if (i + 2 * j) % 5 == 0 || (i >= 5 && j < 2) || (j >= 5 && i < 2) {
                v.push(Some(join_tags(&[a, b], if (i + j) % 2 == 0 { b"," } else { b", " })));
            }
        }
    }
    let n_long = if big { 12 } else { 3 };
    for _ in 0..n_long {
        let k = rng.range(3, 4) as usize;
        let tags: Vec<&[u8]> = (0..k).map(|_| &rng.pick(&tv)[..]).collect();
        v.push(Some(join_tags(&tags, if rng.chance(1, 2) { b", " } else { b"," })));
    }
    v
}

impl Prop for C04 {
    fn id(&self) -> &'static str {
        "C04"
    }
    fn level(&self) -> &'static str {
        "exploration"
    }
    fn rule(&self, ctx: &Ctx) -> String {
        format!("full product: ETag {{absent, strong, weak, \"a, b\", \"x y\", non-ASCII opaque}} x mtime {{absent, whole second, +1ms, +500ms, +999999999ns, one hour ahead of the clock, year 3000}} x If-Match x If-None-Match (each: absent, *, all single tags and {} pairs over {{same-strong, same-weak, other-strong, other-weak, tag containing ', ', own tag + '-gzip', own tag with one byte changed}}, sampled 3-4 element lists) x If-Modified-Since x If-Unmodified-Since {{absent, second-1, second, second+1}} x GET/HEAD x Range {{absent, satisfiable or unsatisfiable}}{}. Non-trivial = distinct case with at least one conditional header whose status was compared with the RFC 7232 model",
            if thorough(ctx) { "all" } else { "a fifth of the" }, if thorough(ctx) { " x 3 date syntaxes x with/without Range" } else { "" })
    }
    fn n_blocks(&self, ctx: &Ctx) -> usize {
        let mut rng = Rng::new(0);
        42 * tag_list_options(None, thorough(ctx) && !ctx.leg.slow(), &mut rng).len()
    }
    fn exhaustive(&self, _: &Ctx) -> bool {
        true
    }
    fn run_block(&self, b: usize, sink: &mut Sink) {
        let ctx = sink.ctx.clone();
        let big = thorough(&ctx) && !ctx.leg.slow();
        let etag = c04_etags()[b % 6].clone();
        let mtime = c04_mtimes()[(b / 6) % 7];
        let mut rng = Rng::from_parts(ctx.seed, &[4, (b % 42) as u64]);
        let ims = tag_list_options(etag.as_deref(), big, &mut rng);
        let im = ims[b / 42].clone();
        let inms = ims.clone();
        let sec = mtime.map(|m| m.0).unwrap_or(FIXED_SEC);
        let styles: &[DateStyle] = if big { &[DateStyle::Imf, DateStyle::Rfc850, DateStyle::Asctime] } else { &[DateStyle::Imf] };
        // a Range header must not change a 412 / 304 outcome - satisfiable or not
        let ranges: &[Option<&[u8]>] = if big { &[None, Some(b"bytes=0-0"), Some(b"bytes=100-"), Some(b"bytes=0-1, 4-5")] } else if b % 2 == 0 { &[None, Some(b"bytes=100-")] } else { &[None, Some(b"bytes=2-3")] };
        for inm in &inms {
            if sink.stopped() {
                return;
            }
            for d_ims in [None, Some(-1i64), Some(0), Some(1)] {
                for d_ius in [None, Some(-1i64), Some(0), Some(1)] {
                    for (si, style) in styles.iter().enumerate() {
                        if si > 0 && d_ims.is_none() && d_ius.is_none() {
                            continue;
                        }
                        for method in ["GET", "HEAD"] {
                            for range in ranges {
                                let ent = EntSpec { len: 10, etag: etag.clone(), mtime, hdrs: vec![], plan: ChunkPlan::default(), fault: None, slow_calls: false, content_mode: 0 };
                                let mut c = ServeCase::get(ent);
                                c.method = method.into();
                                c.extra_polls = 0;
                                if let Some(v) = &im {
                                    c.hdrs.push(("if-match".into(), v.clone()));
                                }
                                if let Some(v) = inm {
                                    c.hdrs.push(("if-none-match".into(), v.clone()));
                                }
                                if let Some(d) = d_ims {
                                    c.hdrs.push(("if-modified-since".into(), fmt_date((sec as i64 + d) as u64, *style).into_bytes()));
                                }
                                if let Some(d) = d_ius {
                                    c.hdrs.push(("if-unmodified-since".into(), fmt_date((sec as i64 + d) as u64, *style).into_bytes()));
                                }
                                if let Some(r) = range {
                                    c.hdrs.push(("range".into(), r.to_vec()));
                                }
                                exec(&c, sink, &c04_judge);
                            }
                        }
                    }
                }
            }
        }
    }
    fn replay(&self, case: &Value, sink: &mut Sink) {
        replay_serve(&c04_judge, case, sink);
    }
    fn floors(&self, _: &Ctx) -> Vec<(&'static str, u64)> {
        vec![("model_PreconditionFailed", 1000), ("model_NotModified", 1000), ("model_Continue", 1000)]
    }
    fn assumptions(&self) -> Vec<String> {
        vec!["not judged: malformed validators, tag lists that need recipient leniency (OWS before a comma, empty elements); HTTP-dates in request headers are read back with the httpdate crate (a dependency, not code under test)".into()]
    }
}

// =================================================================================== C05 ====

pub struct C05;

fn c05_judge(c: &ServeCase, o: &ServeObs, sink: &mut Sink) -> (Verdict, Option<u64>) {
    if let Some(p) = &o.serve_panic {
        return (Verdict::viol(format!("panic@{}", norm_loc(p)), format!("serve panicked: {}", p)), None);
    }
    let r = o.resp.as_ref().unwrap();
    let range = match c.hdr("range") {
        Some(r) => r,
        None => return (Verdict::Ok, None),
    };
    // companions: preconditions that the request also carries must let it through to range
    // selection, or the case is C04's subject
    if ["if-match", "if-none-match", "if-modified-since", "if-unmodified-since"].iter().any(|h| c.hdr(h).is_some()) {
        let im = c.hdr("if-match").map(cond::parse_tag_list);
        let inm = c.hdr("if-none-match").map(cond::parse_tag_list);
        let pre = match (hdr_date_secs(c.hdr("if-modified-since")), hdr_date_secs(c.hdr("if-unmodified-since"))) {
            (Ok(ims), Ok(ius)) => cond::evaluate(c.ent.etag.as_deref(), c.ent.mtime.map(|m| m.0), im.as_ref(), inm.as_ref(), ims, ius),
            _ => None,
        };
        if pre != Some(cond::Outcome::Continue) {
            return (Verdict::DontCare("a precondition does not let the request through (C04)".into()), None);
        }
        sink.count("with_passing_precondition");
    }
    let if_range = c.hdr("if-range");
    let n_if_range = c.hdrs.iter().filter(|(k, _)| k.eq_ignore_ascii_case("if-range")).count();
    if n_if_range > 1 {
        // several If-Range field lines: the statement does not say which one counts. Judged only
        // when no line, taken alone, would allow the range (then no reading allows it).
        let any_could_allow = c.hdrs.iter().filter(|(k, _)| k.eq_ignore_ascii_case("if-range")).any(|(_, v)| {
            let strong_identical = cond::is_tag(v) && !cond::is_weak(v) && c.ent.etag.as_deref() == Some(&v[..]);
            let date_equal = matches!((hdr_date_secs(Some(v)), c.ent.mtime), (Ok(Some(d)), Some(m)) if d == m.0);
            strong_identical || date_equal
        });
        if any_could_allow {
            return (Verdict::DontCare("several If-Range lines, one of which matches".into()), None);
        }
        sink.count("repeated_if_range_lines_none_matching");
    }
    let honour = match if_range {
        None => Some(true),
        Some(v) => {
            let strong_identical = cond::is_tag(v) && !cond::is_weak(v) && c.ent.etag.as_deref() == Some(v);
            if strong_identical {
                Some(true)
            } else {
                let date_equal = match (hdr_date_secs(Some(v)), c.ent.mtime) {
                    (Ok(Some(d)), Some(m)) => d == m.0,
                    _ => false,
                };
                if date_equal {
                    None
                } else {
                    Some(false)
                }
            }
        }
    };
    sink.count(match honour { Some(true) => "must_honour", Some(false) => "must_ignore", None => "date_equal_either" });
    let got = c03_got(c, o);
    // HEAD multipart has no body to read back; classify by headers only
    let got = if c.method == "HEAD" && r.status == 206 && r.get("content-type").is_some_and(|t| t.starts_with(b"multipart/byteranges")) {
        Got::Multi(vec![], false)
    } else {
        got
    };
    let honoured_ok = |got: &Got| -> bool {
        match rmodel::expect(range, c.ent.len) {
            None => true,
            Some(acc) => acc.iter().any(|e| matches_expect(e, got, &c.ent) || (c.method == "HEAD" && matches!((e, got), (Expect::Multi { must_full: false, .. }, Got::Multi(..))))),
        }
    };
    let nt = Some(hash64(c));
    match honour {
        Some(false) => {
            if got == Got::Full {
                (Verdict::Ok, nt)
            } else {
                let class = match if_range {
                    Some(v) if cond::is_tag(v) => if cond::is_weak(v) { "weak-tag" } else { "strong-tag" },
                    Some(v) if hdr_date_secs(Some(v)).is_ok() => "date",
                    _ => "garbage",
                };
                (
                    Verdict::viol(
                        format!("honoured-without-matching-strong-validator|{}|etag={}|got={}", class, match &c.ent.etag { None => "absent", Some(e) if cond::is_weak(e) => "weak", _ => "strong" }, got_kind(&got)),
                        format!("If-Range {:?} vs ETag {:?}: expected complete 200 without Content-Range, got {:?}", if_range.map(show), c.ent.etag.as_deref().map(show), got),
                    ),
                    None,
                )
            }
        }
        Some(true) => {
            if honoured_ok(&got) {
                (Verdict::Ok, nt)
            } else {
                (
                    Verdict::viol(
                        format!("range-not-honoured|if-range={}|got={}", if_range.is_some(), got_kind(&got)),
                        format!("Range {:?} with If-Range {:?} (ETag {:?}) should be honoured, got {:?}", show(range), if_range.map(show), c.ent.etag.as_deref().map(show), got),
                    ),
                    None,
                )
            }
        }
        None => {
            if got == Got::Full || honoured_ok(&got) {
                (Verdict::DontCare("If-Range date equal to Last-Modified: either answer".into()), None)
            } else {
                (Verdict::viol(format!("date-equal-neither|got={}", got_kind(&got)), format!("got {:?}", got)), None)
            }
        }
    }
}

fn c05_if_range_values(etag: Option<&[u8]>, mtime: Option<(u64, u32)>) -> Vec<Option<Vec<u8>>> {
    let e: Vec<u8> = etag.map(|e| e.to_vec()).unwrap_or_else(|| b"\"v1\"".to_vec());
    let opaque: Vec<u8> = e.strip_prefix(b"W/").unwrap_or(&e).to_vec();
    let inner = opaque[1..opaque.len() - 1].to_vec();
    let mut v: Vec<Option<Vec<u8>>> = vec![None, Some(e.clone()), Some(opaque.clone())];
    let mut w = b"W/".to_vec();
    w.extend_from_slice(&opaque);
    v.push(Some(w));
    v.push(Some(b"\"other\"".to_vec()));
    v.push(Some(b"W/\"other\"".to_vec()));
    v.push(Some(opaque[..opaque.len() - 1].to_vec())); // prefix (unterminated)
    v.push(Some(opaque[1..].to_vec())); // suffix
    let mut p = b"\"".to_vec();
    p.extend_from_slice(&inner[..inner.len() - 1]);
    p.push(b'"');
    v.push(Some(p)); // shorter opaque
    let mut x = opaque.clone();
    x.insert(opaque.len() - 1, b'x');
    v.push(Some(x)); // longer opaque
    v.push(Some(opaque.to_ascii_uppercase()));
    // differs in exactly one byte (last / first of the opaque part), own tag + '-gzip'
    for k in [1usize, opaque.len() - 2] {
        let mut f = opaque.clone();
        f[k] ^= 0x01;
        v.push(Some(f));
    }
    let mut g = opaque[..opaque.len() - 1].to_vec();
    g.extend_from_slice(b"-gzip\"");
    v.push(Some(g));
    v.push(Some(inner.clone())); // no quotes
    let mut t = opaque.clone();
    t.push(b' ');
    v.push(Some(t)); // trailing space
    let mut l = b"w/".to_vec();
    l.extend_from_slice(&opaque);
    v.push(Some(l));
    let mut two = opaque.clone();
    two.extend_from_slice(b", ");
    two.extend_from_slice(&opaque);
    v.push(Some(two));
    v.push(Some(b"*".to_vec()));
    v.push(Some(b"".to_vec()));
    v.push(Some(b"garbage".to_vec()));
    v.push(Some(vec![0xff, 0xfe, b'"']));
    v.push(Some(b"\"".to_vec()));
    v.push(Some(b"W/".to_vec()));
    let sec = mtime.map(|m| m.0).unwrap_or(FIXED_SEC);
    for d in [-1i64, 0, 1, 86_400] {
        for st in [DateStyle::Imf, DateStyle::Rfc850, DateStyle::Asctime] {
            v.push(Some(fmt_date((sec as i64 + d) as u64, st).into_bytes()));
        }
    }
    v
}

impl Prop for C05 {
    fn id(&self) -> &'static str {
        "C05"
    }
    fn level(&self) -> &'static str {
        "exploration"
    }
    fn rule(&self, _: &Ctx) -> String {
        "full product: ETag {absent, strong, weak, strong with comma, strong with obs-text bytes} x mtime {absent, whole second, +500ms} x If-Range {absent, identical, same opaque strong/weak, W/ and w/ variants, different strong/weak, unterminated prefix, suffix, shorter, longer, upper-cased, unquoted, trailing space, two-tag list, *, empty, garbage, non-ASCII, dates -1s/equal/+1s/+1d in three syntaxes} x Range {single, first byte, suffix, multi (multipart-eligible), multi small, unsatisfiable, whole, four forms with tabs / spaces / empty list elements} x companion precondition {none, If-Match: *, If-Match: own tag, If-Match list containing it, non-matching If-None-Match, later If-Unmodified-Since, earlier If-Modified-Since} x GET/HEAD x 2 lengths; every If-Range case again with a second, different If-Range field line before or after it (judged when no line alone would allow the range). Non-trivial = distinct case carrying Range whose status/Content-Range was compared with the If-Range rule".into()
    }
    fn n_blocks(&self, _: &Ctx) -> usize {
        5 * 3
    }
    fn exhaustive(&self, _: &Ctx) -> bool {
        true
    }
    fn run_block(&self, b: usize, sink: &mut Sink) {
        let etags: [Option<&[u8]>; 5] = [None, Some(b"\"v1\""), Some(b"W/\"v1\""), Some(b"\"a, b\""), Some(b"\"rev-\xb3\xe9\"")];
        let mtimes = [None, Some((FIXED_SEC, 0)), Some((FIXED_SEC, 500_000_000))];
        let etag = etags[b % 5];
        let mtime = mtimes[b / 5];
        // the last four: forms a recipient may accept although the grammar has no whitespace there
        // (an If-Range that does not match must disable them as well)
        let ranges: [&[u8]; 11] = [b"bytes=1-3", b"bytes=0-0", b"bytes=-4", b"bytes=0-1, 5-6", b"bytes=0-0,2-2,4-4", b"bytes=5000-", b"bytes=0-", b"bytes=\t1-3", b"bytes= \t-5", b"bytes=1-3 ,\t5-6", b"bytes=,, 2-4"];
        let sec = mtime.map(|m| m.0).unwrap_or(FIXED_SEC);
        let mut companions: Vec<Option<(&str, Vec<u8>)>> = vec![
            None,
            Some(("if-match", b"*".to_vec())),
            Some(("if-none-match", b"\"nope\"".to_vec())),
            Some(("if-unmodified-since", fmt_date(sec + 1, DateStyle::Imf).into_bytes())),
            Some(("if-modified-since", fmt_date(sec - 1, DateStyle::Imf).into_bytes())),
        ];
        if let Some(e) = etag {
            companions.push(Some(("if-match", e.to_vec())));
            companions.push(Some(("if-match", join_tags(&[b"\"zz\"", e], b", "))));
        }
        if sink.ctx.leg.slow() {
            companions.truncate(2);
        }
        for len in [1000u64, 12] {
            for ir in c05_if_range_values(etag, mtime) {
                if sink.stopped() {
                    return;
                }
                for range in ranges {
                    for method in ["GET", "HEAD"] {
                        // alone, and next to each precondition that lets the request through
                        for pre in &companions {
                            let ent = EntSpec { len, etag: etag.map(|e| e.to_vec()), mtime, hdrs: vec![("content-type".into(), b"text/plain".to_vec())], plan: ChunkPlan::default(), fault: None, slow_calls: false, content_mode: 0 };
                            let mut c = ServeCase::get(ent);
                            c.method = method.into();
                            c.extra_polls = 0;
                            if let Some((k, v)) = pre {
                                c.hdrs.push((k.to_string(), v.clone()));
                            }
                            c.hdrs.push(("range".into(), range.to_vec()));
                            if let Some(v) = &ir {
                                c.hdrs.push(("if-range".into(), v.clone()));
                            }
                            exec(&c, sink, &c05_judge);
                            // the same with a second, different If-Range field line before / after it
                            if let (Some(_), None) = (&ir, pre) {
                                for (k, other) in [&b"\"v0\""[..], b"W/\"v1\"", b"Thu, 01 Jan 1970 00:00:00 GMT"].iter().enumerate() {
                                    let mut c2 = c.clone();
                                    let at = c2.hdrs.iter().position(|(k, _)| k == "if-range").unwrap();
                                    c2.hdrs.insert(if k % 2 == 0 { at } else { at + 1 }, ("if-range".into(), other.to_vec()));
                                    exec(&c2, sink, &c05_judge);
                                }
                            }
                        }
                    }
                }
            }
        }
    }
    fn replay(&self, case: &Value, sink: &mut Sink) {
        replay_serve(&c05_judge, case, sink);
    }
    fn floors(&self, _: &Ctx) -> Vec<(&'static str, u64)> {
        vec![("must_honour", 100), ("must_ignore", 1000), ("date_equal_either", 10), ("with_passing_precondition", 1000), ("repeated_if_range_lines_none_matching", 1000)]
    }
    fn assumptions(&self) -> Vec<String> {
        vec!["an If-Range HTTP-date exactly equal to the Last-Modified second may be honoured or refused (not judged)".into()]
    }
}

// =================================================================================== C06 ====

pub struct C06;

fn hdr_multiset(h: &[(String, Vec<u8>)]) -> Vec<(String, Vec<u8>)> {
    let mut v: Vec<(String, Vec<u8>)> = h.iter().map(|(k, v)| (k.to_ascii_lowercase(), v.clone())).collect();
    v.sort();
    v
}

pub fn c06_judge(c: &ServeCase, o: &ServeObs, sink: &mut Sink) -> (Verdict, Option<u64>) {
    if o.serve_panic.is_some() {
        return (Verdict::DontCare("serve panicked (C13)".into()), None);
    }
    let r = o.resp.as_ref().unwrap();
    let d = o.drain.as_ref().unwrap();
    let l = c.ent.len;
    let range = match c.hdr("range") {
        Some(r) => r,
        None => return (Verdict::Ok, None),
    };
    let expected: Vec<(u64, u64)> = match rmodel::parse(range) {
        rmodel::Parsed::Bytes { specs, beyond_u64: false, inverted: false } => rmodel::resolve(&specs, l),
        _ => return (Verdict::DontCare("not a plain grammatical range set".into()), None),
    };
    if r.status != 206 || expected.len() < 2 || c.method != "GET" {
        return (Verdict::Ok, None);
    }
    // a 206 answering a request with >= 2 satisfiable ranges
    let ct = r.get("content-type").unwrap_or(b"");
    let boundary = match multipart::boundary_of(ct) {
        Some(b) => b,
        None => return (Verdict::viol("content-type", format!("multi-range 206 with Content-Type {:?}", show(ct))), None),
    };
    if r.count("content-type") != 1 {
        return (Verdict::viol("content-type-repeated", "more than one Content-Type on a multipart response"), None);
    }
    if r.get("content-range").is_some() {
        return (Verdict::viol("top-level-content-range", format!("multipart 206 carries top-level Content-Range {:?}", r.get("content-range").map(show))), None);
    }
    let complete = match &d.terminal {
        Terminal::End => true,
        Terminal::Capped => false,
        t => return (Verdict::viol(format!("body-{}", terminal_str(t)), format!("multipart body of an honest entity terminated with {:?}", t)), None),
    };
    let p = match multipart::parse(&d.data, &boundary, complete) {
        Ok(p) => p,
        Err(e) => {
            let class: String = e.split(':').next().unwrap_or("").chars().filter(|c| !c.is_ascii_digit()).collect();
            return (Verdict::viol(format!("unreadable|{}", class.trim()), format!("body does not parse as multipart/byteranges: {}; first bytes {:?}", e, show(&d.data[..d.data.len().min(120)]))), None);
        }
    };
    if complete && !p.closed {
        return (Verdict::viol("no-closing-delimiter", "body ended without the closing delimiter"), None);
    }
    let got: Vec<(u64, u64)> = p.parts.iter().map(|p| (p.first, p.last)).collect();
    let order_ok = if complete { got == expected } else { got.len() <= expected.len() && got[..] == expected[..got.len()] };
    if !order_ok {
        let mut gs = got.clone();
        let mut es = expected.clone();
        gs.sort_unstable();
        es.sort_unstable();
        let class = if complete && gs == es { "order" } else { "set" };
        return (Verdict::viol(format!("parts-{}", class), format!("expected parts {:?} in request order, body has {:?}", expected, got)), None);
    }
    let want_hdrs = if c.hdr("if-range").is_some() { Vec::new() } else { hdr_multiset(&c.ent.hdrs) };
    for part in &p.parts {
        if part.total != l {
            return (Verdict::viol("part-total", format!("part Content-Range total {} for entity length {}", part.total, l)), None);
        }
        let data = &d.data[part.data_off..part.data_off + part.data_present];
        if let Some(i) = check_bytes_mode(c.ent.content_mode, data, part.first) {
            return (Verdict::viol("part-bytes", format!("part {}-{}: byte {} differs from the entity", part.first, part.last, i)), None);
        }
        let got_h = hdr_multiset(&part.hdrs);
        if got_h != want_hdrs {
            return (
                Verdict::viol(
                    format!("part-headers|if-range={}", c.hdr("if-range").is_some()),
                    format!("part headers {:?}, expected {:?}", got_h.iter().map(|(k, v)| format!("{}: {}", k, show(v))).collect::<Vec<_>>(), want_hdrs.iter().map(|(k, v)| format!("{}: {}", k, show(v))).collect::<Vec<_>>()),
                ),
                None,
            );
        }
    }
    let cl = match r.get_u64("content-length") {
        Some(cl) => cl,
        None => return (Verdict::viol("content-length-missing", "multipart 206 without a parseable Content-Length"), None),
    };
    if complete {
        if cl != d.data.len() as u64 {
            return (Verdict::viol("content-length", format!("Content-Length {} but the body is {} bytes", cl, d.data.len())), None);
        }
        sink.count("multipart_complete");
    } else if let Some(first) = p.parts.first().filter(|f| f.data_off <= d.data.len()) {
        let implied = multipart::implied_total(first, &expected, boundary.len());
        if implied != cl as u128 {
            return (Verdict::viol("content-length-implied", format!("Content-Length {} but {} parts in the observed format total {}", cl, expected.len(), implied)), None);
        }
        sink.count("multipart_prefix_only");
    }
    sink.max("max_parts", expected.len() as u64);
    sink.max("max_content_length_digits", cl.to_string().len() as u64);
    sink.add("parts_verified", p.parts.len() as u64);
    (Verdict::Ok, Some(hash64(c)))
}

fn c06_lens() -> Vec<u64> {
    let mut v = vec![400u64, 1000, 65_536, 1 << 32, 1 << 63, u64::MAX];
    let mut p: u64 = 1000;
    for _ in 3..=19 {
        v.push(p - 1);
        v.push(p + 1);
        p = p.saturating_mul(10);
    }
    v.sort_unstable();
    v.dedup();
    v
}

fn c06_hdr_sets() -> Vec<Vec<(String, Vec<u8>)>> {
    vec![
        vec![],
        vec![("content-type".into(), b"text/plain".to_vec())],
        vec![("content-type".into(), b"application/octet-stream".to_vec()), ("content-language".into(), b"en".to_vec()), ("x-thing".into(), b"a: b".to_vec())],
        vec![("x-long".into(), vec![b'v'; 4096])],
        vec![("x-dup".into(), b"one".to_vec()), ("x-dup".into(), b"two".to_vec()), ("content-type".into(), b"text/html; charset=utf-8".to_vec())],
        // an entity that is itself a stored multipart document (boundary colliding with ours)
        vec![("content-type".into(), b"multipart/mixed; boundary=Boundary_42".to_vec())],
        vec![("content-type".into(), b"multipart/byteranges; boundary=B".to_vec()), ("content-encoding".into(), b"gzip".to_vec())],
    ]
}

impl Prop for C06 {
    fn id(&self) -> &'static str {
        "C06"
    }
    fn level(&self) -> &'static str {
        "exploration"
    }
    fn rule(&self, _: &Ctx) -> String {
        "block = entity length (400 .. 2^64-1, both sides of every decimal width) x entity header set {none, 1, 3, one 4 KiB value, repeated name}; inside: 2..8 ranges (ascending, overlapping, adjacent, duplicated, reversed; starts placed on decimal-width boundaries so 1..20-digit numbers occur as first, last and total; short, plus giant ranges for the big lengths) x {alone, with matching If-Range, next to a passing precondition} x chunk plans. Non-trivial = distinct case answered by a multipart 206 whose body was parsed by the length-driven reader and compared part by part (order, Content-Range, headers, bytes) and against Content-Length".into()
    }
    fn n_blocks(&self, _: &Ctx) -> usize {
        c06_lens().len() * c06_hdr_sets().len()
    }
    fn run_block(&self, b: usize, sink: &mut Sink) {
        c06_block(b, sink, &c06_judge);
    }
    fn replay(&self, case: &Value, sink: &mut Sink) {
        replay_serve(&c06_judge, case, sink);
    }
    fn floors(&self, _: &Ctx) -> Vec<(&'static str, u64)> {
        vec![("multipart_complete", 1000), ("multipart_prefix_only", 10), ("max_parts", 8), ("max_content_length_digits", 19)]
    }
    fn assumptions(&self) -> Vec<String> {
        vec!["part header lines may come in any order; the first delimiter may omit its leading CRLF (RFC 2046); bodies above the drain cap are parsed as a prefix and their Content-Length is compared with the total implied by the observed part format".into()]
    }
}

pub fn c06_n_blocks() -> usize {
    c06_lens().len() * c06_hdr_sets().len()
}

pub fn c06_block(b: usize, sink: &mut Sink, judge: &ServeJudge) {
    {
        let ctx = sink.ctx.clone();
        let hs = c06_hdr_sets();
        let len = c06_lens()[b / hs.len()];
        let hdrs = hs[b % hs.len()].clone();
        let mut rng = Rng::from_parts(ctx.seed, &[6, b as u64]);
        let plans = chunk_plans();
        let n_sets = if ctx.leg.slow() { 3 } else if thorough(&ctx) { 600 } else { 60 };
        // candidate start positions: decimal-width boundaries below len
        let mut starts: Vec<u64> = vec![0, 1, 5];
        let mut p: u64 = 10;
        while p < len {
            starts.push(p - 1);
            starts.push(p);
            p = p.saturating_mul(10);
            if p == u64::MAX {
                break;
            }
        }
        starts.push(len - 1);
        starts.push(len - 2);
        starts.push(len / 2);
        // one request with very many ranges (spills every small-vector optimisation)
        if len >= 100_000 && !ctx.leg.slow() {
            for (n_many, layout) in [(1025u64, 0u8), (300, 1), (2000, 2), (40, 4), (1024, 3), (64, 5), (100, 6)] {
                if len < 4_000_000 {
                    continue;
                }
                let ent = EntSpec { len, etag: Some(b"\"v1\"".to_vec()), mtime: None, hdrs: hdrs.clone(), plan: plans[(n_many as usize) % plans.len()].clone(), fault: None, slow_calls: false, content_mode: 0 };
                if hdrs.iter().map(|(k, v)| k.len() + v.len()).sum::<usize>() > 1000 {
                    continue; // 2000 parts x a 4 KiB header each would no longer be smaller than the entity
                }
                let mut c = ServeCase::get(ent);
                c.cap = 1 << 23;
                c.hdrs.push(("range".into(), crate::gen::many_ranges(len, n_many, layout)));
                exec(&c, sink, judge);
                sink.count("many_part_requests");
            }
            for n_many in [17usize, 64, 200] {
                let step = (len / 2 / n_many as u64).min(400);
                if step < 90 {
                    continue;
                }
                let v: Vec<String> = (0..n_many as u64).map(|i| format!("{}-{}", i * step, i * step + (i % 5))).collect();
                let ent = EntSpec { len, etag: Some(b"\"v1\"".to_vec()), mtime: None, hdrs: hdrs.clone(), plan: plans[n_many % plans.len()].clone(), fault: None, slow_calls: false, content_mode: 0 };
                let mut c = ServeCase::get(ent);
                c.cap = 1 << 20;
                c.hdrs.push(("range".into(), format!("bytes={}", v.join(", ")).into_bytes()));
                exec(&c, sink, judge);
                sink.max("max_parts", 0);
            }
        }
        for set_i in 0..n_sets {
            if sink.stopped() {
                return;
            }
            // histories: a multi-range request whose exact multipart length does not fit in u64 (413)
            // right before an ordinary one, on the same thread with the same entity headers - state
            // must not leak from the refused request into the next response
            if len > (1 << 62) && set_i % 3 == 0 {
                let huge = len - 160 - 1 - (set_i % 11);
                let ent = EntSpec { len, etag: Some(b"\"v1\"".to_vec()), mtime: None, hdrs: hdrs.clone(), plan: ChunkPlan::default(), fault: None, slow_calls: false, content_mode: 0 };
                let mut c = ServeCase::get(ent);
                c.cap = 1 << 12;
                c.extra_polls = 0;
                c.hdrs.push(("range".into(), format!("bytes=0-0,1-{}", huge).into_bytes()));
                exec(&c, sink, judge);
                sink.count("overflowing_request_before_ordinary_one");
            }
            let n = 2 + (set_i % 7) as usize;
            let mut ranges: Vec<(u64, u64)> = Vec::new();
            let budget = len / 2; // keep sum(len_i + 80) well below len so multipart is chosen
            let per = (budget / n as u64).saturating_sub(80);
            if per == 0 {
                continue;
            }
            for i in 0..n {
                let a = match set_i % 5 {
                    0 => *rng.pick(&starts),
                    1 => rng.below(len),
                    2 if i > 0 => ranges[i - 1].1.saturating_add(1).min(len - 1), // adjacent
                    3 if i > 0 => ranges[i - 1].0,                               // duplicate / overlap
                    _ => *rng.pick(&starts),
                };
                let max_len = per.min(len - a);
                let ln = if len > (1 << 20) && rng.chance(1, 6) { max_len } else { max_len.min(1 + rng.below(20)) };
                ranges.push((a, a + ln - 1));
            }
            if set_i % 4 == 3 {
                ranges.reverse();
            }
            let value = format!("bytes={}", ranges.iter().map(|(a, b)| if rng.chance(1, 8) && *b == len - 1 { format!("{}-", a) } else { format!("{}-{}", a, b) }).collect::<Vec<_>>().join(if set_i % 2 == 0 { "," } else { ", " }));
            for variant in 0..3u8 {
                // 0: Range alone, 1: with a matching If-Range, 2: next to a precondition that passes
                let with_if_range = variant == 1;
                if variant == 2 && set_i % 3 != 1 {
                    continue;
                }
                let plan = plans[(set_i as usize + variant as usize) % plans.len()].clone();
                let mut ent = EntSpec { len, etag: Some(b"\"v1\"".to_vec()), mtime: Some((FIXED_SEC, 0)), hdrs: hdrs.clone(), plan: plan.clone(), fault: None, slow_calls: false, content_mode: 0 };
                if set_i % 3 == 0 {
                    ent.mtime = None;
                }
                if set_i % 4 == 1 {
                    ent.content_mode = 1; // entity bytes that look like delimiters and part headers
                }
                let mut c = ServeCase::get(ent);
                c.cap = if plan_is_small_chunks(&plan) || plan.pend_period > 0 { 1 << 14 } else { 1 << 17 };
                c.hdrs.push(("range".into(), value.clone().into_bytes()));
                if with_if_range {
                    c.hdrs.push(("if-range".into(), b"\"v1\"".to_vec()));
                }
                if variant == 2 {
                    let (k, v): (&str, Vec<u8>) = match (set_i / 3) % 6 {
                        0 => ("if-match", b"*".to_vec()),
                        1 => ("if-none-match", b"\"nope\", W/\"v1x\"".to_vec()),
                        2 => ("if-match", b"\"zz\", \"v1\"".to_vec()),
                        3 => ("if-match", b"\"v1\"".to_vec()),
                        4 => ("if-modified-since", fmt_date(FIXED_SEC - 1, DateStyle::Imf).into_bytes()),
                        _ => ("if-unmodified-since", fmt_date(FIXED_SEC + 1, DateStyle::Imf).into_bytes()),
                    };
                    c.hdrs.insert(0, (k.into(), v));
                }
                c.data_kind = (set_i % 5 == 2) as u8;
                exec(&c, sink, judge);
            }
        }
    }
}

// =================================================================================== C07 ====

pub struct C07;

#[derive(Clone, Debug, PartialEq, Eq, Hash)]
pub struct FaultCase {
    pub serve: ServeCase,
}

/// Offset in the honest body at which the faulty stream's data starts (None: could not tell).
fn fault_stream_body_offset(honest: &ServeObs, call: usize) -> Option<usize> {
    let r = honest.resp.as_ref()?;
    let d = honest.drain.as_ref()?;
    if let Some(b) = r.get("content-type").and_then(multipart::boundary_of) {
        let p = multipart::parse(&d.data, &b, d.terminal == Terminal::End).ok()?;
        p.parts.get(call).map(|p| p.data_off)
    } else {
        Some(0)
    }
}

pub fn c07_judge(c: &ServeCase, o: &ServeObs, sink: &mut Sink) -> (Verdict, Option<u64>) {
    let f = match &c.ent.fault {
        Some(f) => f.clone(),
        None => return (Verdict::Ok, None),
    };
    if o.serve_panic.is_some() {
        return (Verdict::DontCare("serve panicked (C13)".into()), None);
    }
    let r = o.resp.as_ref().unwrap();
    let d = o.drain.as_ref().unwrap();
    if o.rec.get_range.len() <= f.call {
        return (Verdict::DontCare("faulty stream never requested".into()), None);
    }
    let (fs, fe) = o.rec.get_range[f.call];
    let stream_len = fe - fs;
    let kind = format!("{:?}", f.kind);
    let shape = if r.get("content-type").is_some_and(|t| t.starts_with(b"multipart/")) { format!("multipart-part{}", f.call) } else { r.status.to_string() };
    if f.kind == FaultKind::Panic {
        return (Verdict::DontCare("panicking entity stream (explored by C20 only)".into()), None);
    }
    if let Terminal::Panic(p) = &d.terminal {
        return (Verdict::viol(format!("{}|{}|panic", kind, shape), format!("draining panicked: {}", p)), None);
    }
    let announced = r.get_u64("content-length").unwrap_or(o.init_hint.0);
    match f.kind {
        FaultKind::Panic => unreachable!(),
        FaultKind::EarlyEnd | FaultKind::Err => {
            if f.kind == FaultKind::EarlyEnd && f.at >= stream_len {
                return (Verdict::DontCare("early end at the very end is no fault".into()), None);
            }
            if d.terminal == Terminal::End {
                return (
                    Verdict::viol(format!("{}|{}|clean-end", kind, shape), format!("entity stream {} after {} of {} bytes, yet the body ended cleanly after {} bytes (announced {})", if f.kind == FaultKind::Err { "failed" } else { "ended" }, f.at, stream_len, d.total, announced)),
                    None,
                );
            }
            if !matches!(d.terminal, Terminal::Err(_)) {
                return (Verdict::DontCare(format!("terminal {}", terminal_str(&d.terminal))), None);
            }
            // data delivered must be a prefix of the honest body, not reaching beyond the fault
            let mut honest_case = c.clone();
            honest_case.ent.fault = None;
            honest_case.extra_polls = 0;
            if let Some(h) = run_serve(&honest_case) {
                if let Some(hd) = &h.drain {
                    if !hd.data.starts_with(&d.data) {
                        return (Verdict::viol(format!("{}|{}|not-a-prefix", kind, shape), format!("data delivered before the error ({} bytes) is not a prefix of the body of the fault-free run", d.data.len())), None);
                    }
                    if let Some(off) = fault_stream_body_offset(&h, f.call) {
                        if d.data.len() as u64 > off as u64 + f.at {
                            return (Verdict::viol(format!("{}|{}|beyond-fault", kind, shape), format!("{} bytes delivered although the stream stopped at body offset {}", d.data.len(), off as u64 + f.at)), None);
                        }
                    }
                }
            }
            sink.count("short_or_failing_reported_as_error");
        }
        FaultKind::ExtraByte | FaultKind::ExtraChunk | FaultKind::Overrun => {
            if f.kind != FaultKind::Overrun && f.at > stream_len {
                return (Verdict::DontCare("fault offset beyond the stream".into()), None);
            }
            if d.total > announced {
                return (Verdict::viol(format!("{}|{}|delivered-more", kind, shape), format!("announced {} bytes, {} passed on", announced, d.total)), None);
            }
            match &d.terminal {
                Terminal::Err(_) => sink.count("too_long_reported_as_error"),
                Terminal::End => sink.count("too_long_clean_end_at_announced_length"),
                _ => {}
            }
        }
    }
    sink.count(&format!("fault_{}_{}", kind, shape));
    (Verdict::Ok, Some(hash64(c)))
}

/// All chunk-size tuples of 1..=4 chunks with sizes 0..=3.
pub fn c07_tuples() -> Vec<Vec<u32>> {
    c07_tuples_upto(4)
}

pub fn c07_tuples_upto(max_chunks: u32) -> Vec<Vec<u32>> {
    let mut v = Vec::new();
    for k in 1..=max_chunks {
        for code in 0..4u32.pow(k) {
            let mut t = Vec::new();
            let mut x = code;
            for _ in 0..k {
                t.push(x % 4);
                x /= 4;
            }
            if t.iter().sum::<u32>() > 0 {
                v.push(t);
            }
        }
    }
    v
}

pub fn c07_cases_for_tuple(t: &[u32], slow: bool) -> Vec<ServeCase> {
    let sum: u64 = t.iter().map(|x| *x as u64).sum();
    let mut out = Vec::new();
    let mut faults: Vec<(FaultKind, u64)> = Vec::new();
    for at in 0..=sum {
        if at < sum {
            faults.push((FaultKind::EarlyEnd, at));
        }
        faults.push((FaultKind::Err, at));
        faults.push((FaultKind::ExtraByte, at));
    }
    faults.push((FaultKind::ExtraChunk, sum));
    for extra in [1u64, 2, 3, 5] {
        faults.push((FaultKind::Overrun, extra));
    }
    // over-long streams whose chunk boundaries do not coincide with the end of the range: the
    // range is k bytes shorter than the chunking, so one chunk straddles the end and more follow
    let mut straddle: Vec<(u64, u64)> = Vec::new(); // (range length, overrun)
    for k in [1u64, 2] {
        if sum > k {
            for extra in [k, k + 1, k + 3] {
                straddle.push((sum - k, extra));
            }
        }
    }
    // shapes: (range header, entity length, number of get_range calls)
    let mut shapes: Vec<(Option<String>, u64, usize)> = vec![(None, sum, 1), (Some(format!("bytes=3-{}", 3 + sum - 1)), sum + 7, 1)];
    for n in [2usize, 3] {
        let v: Vec<String> = (0..n as u64).map(|i| format!("{}-{}", 100 * i + 5, 100 * i + 5 + sum - 1)).collect();
        shapes.push((Some(format!("bytes={}", v.join(","))), 2000, n));
    }
    // the same shapes for the straddling over-runs
    let mut all: Vec<(Option<String>, u64, usize, Vec<(FaultKind, u64)>)> = shapes.iter().map(|(r, l, c)| (r.clone(), *l, *c, faults.clone())).collect();
    for (rl, extra) in straddle {
        if slow {
            break;
        }
        let f = vec![(FaultKind::Overrun, extra)];
        all.push((None, rl, 1, f.clone()));
        all.push((Some(format!("bytes=3-{}", 3 + rl - 1)), rl + 7, 1, f.clone()));
        let v: Vec<String> = (0..2u64).map(|i| format!("{}-{}", 100 * i + 5, 100 * i + 5 + rl - 1)).collect();
        all.push((Some(format!("bytes={}", v.join(","))), 2000, 2, f));
    }
    for (range, len, calls, faults) in all {
        for call in 0..calls {
            for (kind, at) in &faults {
                // 0: plain, 1: Pending polls before the fault, 2: the stream reports an exact size_hint,
                // 3: every empty chunk stretched into a run of 40 empty chunks (one such run after the
                // first chunk if the tuple has none)
                // 4: the entity itself reports the shorter length from its second len() call on
                //    (early end only), 5: the request carries an If-Range that matches
                for variant in 0..6 {
                    let pend = variant == 1;
                    if slow && (variant != 0 || (call > 0 && *at != 1)) {
                        continue;
                    }
                    if variant == 4 && *kind != FaultKind::EarlyEnd {
                        continue;
                    }
                    let mut sizes: Vec<Sz> = t.iter().map(|x| Sz::Abs(*x)).collect();
                    if variant == 3 {
                        let has_empty = t.contains(&0);
                        sizes = Vec::new();
                        for (i, x) in t.iter().enumerate() {
                            if *x == 0 {
                                sizes.extend(std::iter::repeat(Sz::Abs(0)).take(40));
                            } else {
                                sizes.push(Sz::Abs(*x));
                            }
                            if !has_empty && i == 0 {
                                sizes.extend(std::iter::repeat(Sz::Abs(0)).take(40));
                            }
                        }
                    }
                    let plan = ChunkPlan { sizes, pend_mask: if pend { 0b0101 } else { 0 }, pend_period: if pend { 4 } else { 0 }, hint_exact: variant == 2 };
                    // where the faulty stream's range starts in the entity
                    let start = match (&range, calls) {
                        (None, _) => 0,
                        (Some(_), 1) => 3,
                        _ => 100 * call as u64 + 5,
                    };
                    let shrunk_len = if variant == 4 { Some(start + *at) } else { None };
                    let ent = EntSpec { len, etag: if variant == 5 { Some(b"\"v1\"".to_vec()) } else { None }, mtime: None, hdrs: vec![("content-type".into(), b"x/y".to_vec())], plan, fault: Some(Fault { call, at: *at, kind: kind.clone(), shrunk_len }), slow_calls: false, content_mode: 0 };
                    let mut c = ServeCase::get(ent);
                    c.extra_polls = 3;
                    c.data_kind = ((*at + call as u64 + variant as u64) % 3 == 0) as u8;
                    if let Some(r) = &range {
                        c.hdrs.push(("range".into(), r.clone().into_bytes()));
                        if variant == 5 {
                            c.hdrs.push(("if-range".into(), b"\"v1\"".to_vec()));
                        }
                    }
                    out.push(c);
                }
            }
        }
    }
    out
}

/// Faults in bodies of more than 64 KiB delivered in small chunks (the tuple enumeration only
/// has bodies of a few bytes): error / early end / over-run late in the body, 200 and single range.
pub fn long_fault_cases(slow: bool) -> Vec<ServeCase> {
    let mut out = Vec::new();
    if slow {
        return out;
    }
    for len in [65_536u64, 70_000, 200_000] {
        for sizes in [vec![Sz::Abs(700)], vec![Sz::Abs(100), Sz::Abs(1000), Sz::Abs(5)], vec![Sz::Abs(4096), Sz::Abs(1)], vec![Sz::Abs(65_536)]] {
            for range in [None, Some(format!("bytes=5-{}", len - 3))] {
                let (start, rlen) = if range.is_some() { (5u64, len - 7) } else { (0, len) };
                let _ = start;
                for (kind, at) in [(FaultKind::Err, rlen - 1), (FaultKind::Err, 66_000.min(rlen - 2)), (FaultKind::Err, 1000), (FaultKind::EarlyEnd, rlen - 1), (FaultKind::EarlyEnd, 65_000), (FaultKind::Overrun, 3), (FaultKind::ExtraByte, rlen), (FaultKind::ExtraChunk, rlen)] {
                    for pend in [false, true] {
                        let plan = ChunkPlan { sizes: sizes.clone(), pend_mask: if pend { 0b1 } else { 0 }, pend_period: if pend { 7 } else { 0 }, hint_exact: false };
                        let ent = EntSpec { len, etag: None, mtime: None, hdrs: vec![("content-type".into(), b"x/y".to_vec())], plan, fault: Some(Fault { call: 0, at, kind: kind.clone(), shrunk_len: None }), slow_calls: false, content_mode: 0 };
                        let mut c = ServeCase::get(ent);
                        c.cap = len + 4096;
                        c.extra_polls = 4;
                        if let Some(r) = &range {
                            c.hdrs.push(("range".into(), r.clone().into_bytes()));
                        }
                        out.push(c);
                    }
                }
            }
        }
    }
    out
}

/// Entities of length 0 whose stream misbehaves all the same (the tuple enumeration starts at
/// one byte).
pub fn empty_entity_fault_cases() -> Vec<ServeCase> {
    let mut out = Vec::new();
    for sizes in [vec![], vec![Sz::Abs(0)], vec![Sz::Abs(0), Sz::Abs(0), Sz::Abs(0)], vec![Sz::Abs(2)]] {
        for (kind, at) in [(FaultKind::Err, 0u64), (FaultKind::ExtraByte, 0), (FaultKind::ExtraChunk, 0), (FaultKind::Overrun, 1), (FaultKind::Overrun, 3)] {
            for pend in [false, true] {
                for hint_exact in [false, true] {
                    let plan = ChunkPlan { sizes: sizes.clone(), pend_mask: if pend { 0b1 } else { 0 }, pend_period: if pend { 2 } else { 0 }, hint_exact };
                    let ent = EntSpec { len: 0, etag: None, mtime: None, hdrs: vec![("content-type".into(), b"x/y".to_vec())], plan, fault: Some(Fault { call: 0, at, kind: kind.clone(), shrunk_len: None }), slow_calls: false, content_mode: 0 };
                    let mut c = ServeCase::get(ent);
                    c.extra_polls = 3;
                    out.push(c);
                }
            }
        }
    }
    out
}

impl Prop for C07 {
    fn id(&self) -> &'static str {
        "C07"
    }
    fn level(&self) -> &'static str {
        "fault_enumeration"
    }
    fn rule(&self, _: &Ctx) -> String {
        "exhaustive: every entity stream of 1..4 chunks (1..5 in the thorough tier) with chunk lengths 0..3 x fault {early end, Err, one extra byte inside a chunk, one extra chunk} at every byte offset x response shape {200, single 206, multipart of 2 and 3 parts with the fault in each part} x {plain, Pending polls before the fault, stream with an exact size_hint, runs of 40 empty chunks, an entity whose own len() has shrunk to where the stream ends, a matching If-Range on the request}; plus the same fault kinds late in bodies of 64 KiB .. 200 KB delivered in chunks of 5 .. 4096 bytes, and in the stream of a zero-length entity. Non-trivial = distinct case in which the faulty stream was actually requested and the terminal event / delivered byte count was compared with the rule".into()
    }
    fn n_blocks(&self, ctx: &Ctx) -> usize {
        if ctx.leg.slow() { 40 } else if thorough(ctx) { c07_tuples_upto(5).len() } else { c07_tuples().len() }
    }
    fn exhaustive(&self, _: &Ctx) -> bool {
        true
    }
    fn run_block(&self, b: usize, sink: &mut Sink) {
        let slow = sink.ctx.leg.slow();
        let tuples = if thorough(sink.ctx) && !slow { c07_tuples_upto(5) } else { c07_tuples() };
        let t = if slow { &tuples[(b * 7919) % tuples.len()] } else { &tuples[b] };
        for c in c07_cases_for_tuple(t, slow) {
            if sink.stopped() {
                return;
            }
            exec(&c, sink, &c07_judge);
        }
        if b == 0 {
            for c in long_fault_cases(slow) {
                exec(&c, sink, &c07_judge);
                sink.count("long_body_fault_cases");
            }
            for c in empty_entity_fault_cases() {
                exec(&c, sink, &c07_judge);
                sink.count("empty_entity_fault_cases");
            }
        }
    }
    fn replay(&self, case: &Value, sink: &mut Sink) {
        replay_serve(&c07_judge, case, sink);
    }
    fn floors(&self, _: &Ctx) -> Vec<(&'static str, u64)> {
        vec![("short_or_failing_reported_as_error", 10_000), ("too_long_reported_as_error", 1000), ("fault_Err_multipart-part2", 100), ("fault_EarlyEnd_206", 100)]
    }
    fn assumptions(&self) -> Vec<String> {
        vec!["for over-long streams the body must never pass on more than announced; ending in an error is counted, a clean end exactly at the announced length is tolerated (the statement only forbids 'more data')".into(),
             "the body of the same request with the fault removed serves as the reference for the prefix check (its own correctness is C02/C06's subject)".into()]
    }
}

// =================================================================================== C13 ====

pub struct C13;

const OK_STATUS: [u16; 8] = [200, 206, 304, 400, 405, 412, 413, 416];
const SERVE_MADE_HEADERS: [&str; 8] = ["content-length", "content-range", "date", "last-modified", "accept-ranges", "allow", "content-type", "etag"];

pub fn c13_judge(c: &ServeCase, o: &ServeObs, sink: &mut Sink) -> (Verdict, Option<u64>) {
    if let Some(p) = &o.serve_panic {
        return (Verdict::viol(format!("serve-panic@{}", norm_loc(p)), format!("serve panicked: {}", p)), None);
    }
    let r = o.resp.as_ref().unwrap();
    let d = o.drain.as_ref().unwrap();
    if !OK_STATUS.contains(&r.status) {
        return (Verdict::viol(format!("status-{}", r.status), format!("status {} is outside the allowed set", r.status)), None);
    }
    if let Terminal::Panic(p) = &d.terminal {
        return (Verdict::viol(format!("drain-panic@{}", norm_loc(p)), format!("draining the body panicked: {}", p)), None);
    }
    for e in &d.post {
        if let Ev::Panic(p) = e {
            sink.cross_note("C20:post-terminal-panic", || p.clone());
        }
    }
    if c.method != "GET" && c.method != "HEAD" {
        if r.status != 405 {
            return (Verdict::viol(format!("method-not-405|{}", r.status), format!("method {} answered {}", c.method, r.status)), None);
        }
        let allow = r.get("allow").unwrap_or(b"");
        let toks: Vec<String> = std::str::from_utf8(allow).unwrap_or("").split(',').map(|t| t.trim().to_ascii_uppercase()).collect();
        if !(toks.iter().any(|t| t == "GET") && toks.iter().any(|t| t == "HEAD")) {
            return (Verdict::viol("allow-header", format!("405 with Allow {:?}", show(allow))), None);
        }
        if !o.rec.get_range.is_empty() {
            return (Verdict::viol("entity-read-for-405", format!("get_range called {:?} for method {}", o.rec.get_range, c.method)), None);
        }
        sink.count("non_get_head_405");
    }
    for (k, v) in &r.hdrs {
        if SERVE_MADE_HEADERS.contains(&k.as_str()) && !(k == "etag" || k == "content-type") && !v.iter().all(|b| (0x20..0x7f).contains(b)) {
            return (Verdict::viol(format!("non-ascii-header|{}", k), format!("{}: {:?}", k, show(v))), None);
        }
    }
    // non-trivial: request carried at least one of the six headers or a non-GET method
    let nt = if !c.hdrs.is_empty() || c.method != "GET" { Some(hash64(&(&c.method, &c.hdrs, c.ent.len, c.ent.etag.is_some(), c.ent.mtime.is_some()))) } else { None };
    (Verdict::Ok, nt)
}

pub const C13_METHODS: [&str; 14] = ["GET", "HEAD", "POST", "PUT", "DELETE", "OPTIONS", "PATCH", "TRACE", "CONNECT", "get", "PROPFIND", "X", "M-SEARCH", "AAAAAAAAAAAAAAAAAAAAAAAAAAAAAAAAAAAAAAAA"];
pub const C13_HEADERS: [&str; 6] = ["range", "if-range", "if-match", "if-none-match", "if-modified-since", "if-unmodified-since"];
const BIG_NUMS: [&str; 9] = ["9223372036854775807", "9223372036854775808", "18446744073709551614", "18446744073709551615", "18446744073709551616", "1000000000000000000000000000000", "4294967295", "4294967296", "0"];

/// A hostile value for header `name`.
pub fn c13_value(name: &str, len: u64, rng: &mut Rng) -> Vec<u8> {
    let seeds: Vec<Vec<u8>> = match name {
        "range" => {
            let mut v: Vec<Vec<u8>> = range_values(len, rng).into_iter().flatten().collect();
            for n in NEAR_MISSES {
                v.push(n.as_bytes().to_vec());
            }
            for a in BIG_NUMS {
                v.push(format!("bytes={}-", a).into_bytes());
                v.push(format!("bytes=-{}", a).into_bytes());
                let b = *rng.pick(&BIG_NUMS);
                v.push(format!("bytes={}-{}", a, b).into_bytes());
                v.push(format!("bytes=0-1,{}-{}", a, b).into_bytes());
                v.push(format!("bytes=0-{},0-{},0-{}", a, a, b).into_bytes());
            }
            v
        }
        "if-modified-since" | "if-unmodified-since" => {
            let mut v = Vec::new();
            for d in [-1i64, 0, 1] {
                for st in [DateStyle::Imf, DateStyle::Rfc850, DateStyle::Asctime] {
                    v.push(fmt_date((FIXED_SEC as i64 + d) as u64, st).into_bytes());
                }
            }
            v.push(b"Thu, 01 Jan 1970 00:00:00 GMT".to_vec());
            v.push(b"Fri, 31 Dec 9999 23:59:59 GMT".to_vec());
            v.push(b"Sun, 06 Nov 1994 08:49:37".to_vec());
            v.push(b"0".to_vec());
            v.push(b"".to_vec());
            v.push(b"Mon, 99 Foo 0000 99:99:99 GMT".to_vec());
            v
        }
        _ => {
            let tv = tag_variants(Some(b"\"v1\""));
            let mut v: Vec<Vec<u8>> = tv.clone();
            v.push(b"*".to_vec());
            v.push(join_tags(&[&tv[0], &tv[2]], b", "));
            v.push(join_tags(&[&tv[1], &tv[4], &tv[3]], b","));
            v.push(b"\"unterminated".to_vec());
            v.push(b"W/".to_vec());
            v.push(b"\"a\" , \"b\"".to_vec());
            v.push(b"\"a\",,\"b\"".to_vec());
            v.push(b"".to_vec());
            v.push(fmt_date(FIXED_SEC, DateStyle::Imf).into_bytes());
            v
        }
    };
    let mut v = rng.pick(&seeds).clone();
    match rng.below(10) {
        0..=3 => {}
        4 | 5 => {
            // mutate: drop / duplicate / insert
            let alphabet = b"\"-,=*W/;\t +0123456789";
            for _ in 0..rng.range(1, 3) {
                let pos = if v.is_empty() { 0 } else { rng.below(v.len() as u64 + 1) as usize };
                match rng.below(3) {
                    0 if !v.is_empty() => {
                        v.remove(pos.min(v.len() - 1));
                    }
                    1 if !v.is_empty() => {
                        let b = v[pos.min(v.len() - 1)];
                        v.insert(pos, b);
                    }
                    _ => v.insert(pos, *rng.pick(alphabet)),
                }
            }
        }
        6 => {
            // splice two values
            let w = rng.pick(&seeds).clone();
            let cut = if v.is_empty() { 0 } else { rng.below(v.len() as u64) as usize };
            v.truncate(cut);
            let cut2 = if w.is_empty() { 0 } else { rng.below(w.len() as u64) as usize };
            v.extend_from_slice(&w[cut2..]);
        }
        7 if rng.chance(1, 2) => {
            // long values: runs of obs-text bytes, multi-byte UTF-8, quotes, digits - up to several KiB
            let n = *rng.pick(&[60usize, 86, 100, 127, 128, 129, 255, 256, 257, 300, 1000, 4096, 9000]);
            let units: [&[u8]; 8] = [b"\xe9", b"\xc3\xa9", b"\xe2\x82\xac", b"\xf0\x9f\x98\x80", b"\"", b"9", b"a\xe9", b", \"x\xff\""];
            let leads: [&[u8]; 6] = [b"", b"a", b"\"", b"W/\"", b"bytes=", b"bytes=0-1,"];
            let unit: &[u8] = *rng.pick(&units);
            let lead: &[u8] = *rng.pick(&leads);
            v = lead.to_vec();
            while v.len() < n {
                v.extend_from_slice(unit);
            }
        }
        7 => {
            // arbitrary bytes that HeaderValue accepts: HTAB, 0x20..0x7e, 0x80..0xff
            let n = rng.below(24) as usize;
            v = (0..n)
                .map(|_| match rng.below(4) {
                    0 => b'\t',
                    1 => rng.range(0x80, 0xff) as u8,
                    _ => rng.range(0x20, 0x7e) as u8,
                })
                .collect();
        }
        8 => {
            // replace a digit run by a boundary number
            if let Some(p) = v.iter().position(|c| c.is_ascii_digit()) {
                let e = v[p..].iter().position(|c| !c.is_ascii_digit()).map(|x| p + x).unwrap_or(v.len());
                let mut w = v[..p].to_vec();
                w.extend_from_slice(rng.pick(&BIG_NUMS).as_bytes());
                w.extend_from_slice(&v[e..]);
                v = w;
            }
        }
        _ => {
            // non-ASCII byte inserted
            let pos = if v.is_empty() { 0 } else { rng.below(v.len() as u64 + 1) as usize };
            v.insert(pos, rng.range(0x80, 0xff) as u8);
        }
    }
    v
}

pub fn c13_case(rng: &mut Rng) -> ServeCase {
    let len = *rng.pick(&[0u64, 1, 240, 1 << 32, 1 << 63, u64::MAX, 10, 1000]);
    let mut ent = EntSpec { len, ..Default::default() };
    if rng.chance(2, 3) {
        ent.etag = Some(rng.pick(&[&b"\"v1\""[..], b"W/\"v1\"", b"\"a, b\""]).to_vec());
    }
    if rng.chance(2, 3) {
        ent.mtime = Some((FIXED_SEC, *rng.pick(&[0u32, 500_000_000])));
        if rng.chance(1, 6) {
            // far future: year 10000 and beyond (cannot be written as an HTTP-date; must be clamped)
            ent.mtime = Some((*rng.pick(&[253_402_300_800u64, 253_402_300_799, 1_000_000_000_000, 32_503_680_000]), 0));
        }
    }
    if rng.chance(1, 2) {
        ent.hdrs.push(("content-type".into(), b"text/plain".to_vec()));
    }
    if rng.chance(1, 20) {
        ent.hdrs.push(("x-long".into(), vec![b'v'; 5000]));
    }
    let mut c = ServeCase::get(ent);
    c.cap = 1 << 12;
    c.method = if rng.chance(3, 5) { "GET".into() } else { rng.pick(&C13_METHODS).to_string() };
    let n_hdrs = rng.below(5);
    for _ in 0..n_hdrs {
        let name = *rng.pick(&C13_HEADERS);
        let reps = if rng.chance(1, 8) { rng.range(2, 3) } else { 1 };
        for _ in 0..reps {
            let v = c13_value(name, len, rng);
            c.hdrs.push((name.to_string(), v));
        }
    }
    c
}

impl Prop for C13 {
    fn id(&self) -> &'static str {
        "C13"
    }
    fn level(&self) -> &'static str {
        "exploration"
    }
    fn rule(&self, _: &Ctx) -> String {
        "seeded random requests: method from 14 standard/extension tokens; 0..4 of the six request headers, each 1..3 times, values = grammar-derived (C03-C05 generators), their byte mutations (drop/duplicate/insert from '\"-,=*W/;\\t +0-9', splices), boundary numbers (2^63-1 .. 10^30), arbitrary HeaderValue bytes incl. 0x80-0xFF, values of 60 .. 9000 bytes made of obs-text / multi-byte UTF-8 / quotes; entity length {0,1,10,240,1000,2^32,2^63,2^64-1} x ETag/mtime presence; plus the deterministic product method x single hostile header, and Range values with 21 .. 5000 specs in seven layouts (disjoint, chained overlaps, descending, identical, nested, shuffled chains, pseudo-random overlaps). Non-trivial = distinct (method, headers, entity shape) with a header or a non-GET method, for which no panic, an allowed status and (non-GET/HEAD) 405+Allow+no entity read were checked".into()
    }
    fn n_blocks(&self, ctx: &Ctx) -> usize {
        if ctx.leg.slow() { 16 } else { 256 }
    }
    fn run_block(&self, b: usize, sink: &mut Sink) {
        let ctx = sink.ctx.clone();
        let mut rng = Rng::from_parts(ctx.seed, &[13, b as u64]);
        let per_block = if ctx.leg.slow() { 100 } else if thorough(&ctx) { 40_000 } else { 1_200 };
        if b >= C13_METHODS.len() && b < C13_METHODS.len() + C03_THRESHOLD_LENS.len() {
            // the multipart length arithmetic near its limits (header-rich entities, huge lengths)
            let l = C03_THRESHOLD_LENS[b - C13_METHODS.len()];
            for n in [2u64, 3, 8] {
                for c in c03_threshold_cases(l, n) {
                    exec(&c, sink, &c13_judge);
                    sink.count("multipart_limit_cases");
                }
            }
        }
        if b == C13_METHODS.len() + C03_THRESHOLD_LENS.len() {
            // requests with very many ranges, every layout
            for l in [4_000_000u64, u64::MAX] {
                for n in crate::gen::MANY_COUNTS {
                    for layout in 0..crate::gen::MANY_LAYOUTS {
                        for m in ["GET", "HEAD"] {
                            let mut c = ServeCase::get(EntSpec { len: l, etag: Some(b"\"v1\"".to_vec()), mtime: Some((FIXED_SEC, 0)), ..Default::default() });
                            c.method = m.into();
                            c.cap = 1 << 12;
                            c.hdrs.push(("range".into(), crate::gen::many_ranges(l, n, layout)));
                            exec(&c, sink, &c13_judge);
                            sink.count("many_spec_requests");
                        }
                    }
                }
            }
        }
        if b < C13_METHODS.len() {
            // deterministic part: this method x every header x every seed value class
            let m = C13_METHODS[b];
            for name in C13_HEADERS {
                for _ in 0..40 {
                    let mut c = ServeCase::get(EntSpec { len: *rng.pick(&[0u64, 240, u64::MAX]), etag: Some(b"\"v1\"".to_vec()), mtime: Some((FIXED_SEC, 0)), ..Default::default() });
                    c.method = m.into();
                    c.cap = 1 << 12;
                    let v = c13_value(name, c.ent.len, &mut rng);
                    c.hdrs.push((name.to_string(), v));
                    exec(&c, sink, &c13_judge);
                }
            }
        }
        for _ in 0..per_block {
            let c = c13_case(&mut rng);
            exec(&c, sink, &c13_judge);
            if sink.stopped() {
                return;
            }
        }
    }
    fn replay(&self, case: &Value, sink: &mut Sink) {
        replay_serve(&c13_judge, case, sink);
    }
    fn floors(&self, _: &Ctx) -> Vec<(&'static str, u64)> {
        vec![("non_get_head_405", 1000), ("status_400", 100), ("status_416", 100), ("status_206", 100), ("status_412", 100), ("status_304", 100)]
    }
}

// =================================================================================== C14 ====

pub struct C14;

#[derive(Clone, Debug, PartialEq, Eq, Hash)]
struct History {
    first: ServeCase,
    /// bitmask: 1 If-None-Match, 2 If-Modified-Since, 4 If-Match, 8 If-Unmodified-Since, 16 If-Range (+ Range)
    echo: u8,
    second_method: String,
}

impl History {
    fn to_json(&self) -> Value {
        json!({"first": self.first.to_json(), "echo_mask": self.echo, "second_method": self.second_method})
    }
    fn from_json(v: &Value) -> History {
        History { first: ServeCase::from_json(&v["first"]), echo: v["echo_mask"].as_u64().unwrap_or(0) as u8, second_method: v["second_method"].as_str().unwrap_or("GET").into() }
    }
}

fn c14_first_checks(c: &ServeCase, o: &ServeObs, sink: &mut Sink) -> Result<(), Verdict> {
    let r = o.resp.as_ref().unwrap();
    let st = r.status;
    if ![200, 206, 304, 412, 416].contains(&st) {
        return Ok(());
    }
    if r.get("accept-ranges") != Some(b"bytes") || r.count("accept-ranges") != 1 {
        return Err(Verdict::viol(format!("accept-ranges|{}", st), format!("{} response with Accept-Ranges {:?}", st, r.get("accept-ranges").map(show))));
    }
    if r.get("etag") != c.ent.etag.as_deref() || r.count("etag") > 1 {
        return Err(Verdict::viol(format!("etag|{}", st), format!("{} response ETag {:?}, entity ETag {:?}", st, r.get("etag").map(show), c.ent.etag.as_deref().map(show))));
    }
    if let Some((msec, _)) = c.ent.mtime {
        let date = r.get("date").and_then(parse_imf);
        let lm = r.get("last-modified").and_then(parse_imf);
        let (date, lm) = match (date, lm) {
            (Some(d), Some(l)) => (d, l),
            _ => {
                return Err(Verdict::viol(format!("date-or-last-modified-missing|{}", st), format!("entity has mtime; Date {:?}, Last-Modified {:?}", r.get("date").map(show), r.get("last-modified").map(show))));
            }
        };
        if lm > date {
            return Err(Verdict::viol(format!("last-modified-after-date|{}", st), format!("Last-Modified {} > Date {}", lm, date)));
        }
        // judged against the response's own Date, so no clock is read here. A modification time
        // later than the Date lies in the future: then only "never exceeds the Date" is required
        // (an implementation may clamp with an earlier clock reading than the one it prints).
        let want = if msec > date { lm } else { msec };
        if lm != want {
            return Err(Verdict::viol(
                format!("last-modified-value|{}|{}", st, if msec > date { "future" } else { "past" }),
                format!("Last-Modified {} but min(floor(mtime) = {}, Date = {}) = {}", lm, msec, date, want),
            ));
        }
        if msec > date {
            sink.count("future_mtime_clamped");
        } else {
            sink.count("past_mtime_truncated");
        }
    }
    // entity headers
    let want_hdrs = hdr_multiset(&c.ent.hdrs);
    let is_multipart = r.get("content-type").is_some_and(|t| t.starts_with(b"multipart/byteranges"));
    let expect_entity_hdrs = st == 200 || (st == 206 && c.hdr("if-range").is_none());
    if is_multipart {
        if c.method == "GET" {
            let d = o.drain.as_ref().unwrap();
            if let Some(b) = r.get("content-type").and_then(multipart::boundary_of) {
                if let Ok(p) = multipart::parse(&d.data, &b, d.terminal == Terminal::End) {
                    for part in &p.parts {
                        let got = hdr_multiset(&part.hdrs);
                        let want = if expect_entity_hdrs { want_hdrs.clone() } else { vec![] };
                        if got != want {
                            return Err(Verdict::viol(format!("entity-headers-in-part|{}", expect_entity_hdrs), format!("part headers {:?}, expected {:?}", got, want)));
                        }
                    }
                    sink.count("multipart_parts_header_checked");
                }
            }
        }
    } else {
        for (k, v) in &want_hdrs {
            let present = r.hdrs.iter().any(|(k2, v2)| k2 == k && v2 == v);
            if expect_entity_hdrs && !present {
                return Err(Verdict::viol(format!("entity-header-missing|{}", st), format!("{} response lacks entity header {}: {}", st, k, show(v))));
            }
            if !expect_entity_hdrs && [304, 412, 416].contains(&st) && present {
                return Err(Verdict::viol(format!("entity-header-on-{}", st), format!("{} response carries entity header {}: {}", st, k, show(v))));
            }
        }
    }
    Ok(())
}

fn c14_run(h: &History, sink: &mut Sink) -> (Verdict, Option<u64>, Value) {
    let o1 = match run_serve(&h.first) {
        Some(o) => o,
        None => return (Verdict::DontCare("inexpressible".into()), None, json!(null)),
    };
    let render = |o2: Option<&ServeObs>, c2: Option<&ServeCase>| json!({"history": h.to_json(), "first_response": o1.resp.as_ref().map(|r| r.to_json()), "second_request": c2.map(|c| c.to_json()["hdrs"].clone()), "second_response": o2.and_then(|o| o.resp.as_ref().map(|r| r.to_json()))});
    if o1.serve_panic.is_some() {
        return (Verdict::DontCare("serve panicked (C13)".into()), None, render(None, None));
    }
    sink.count(&format!("first_status_{}", o1.resp.as_ref().unwrap().status));
    if let Err(v) = c14_first_checks(&h.first, &o1, sink) {
        return (v, None, render(None, None));
    }
    let r1 = o1.resp.as_ref().unwrap();
    if h.echo == 0 {
        return (Verdict::Ok, Some(hash64(h)), render(None, None));
    }
    // build the second request from what was served
    let etag = r1.get("etag").map(|e| e.to_vec());
    let lm = r1.get("last-modified").map(|e| e.to_vec());
    let mut c2 = ServeCase::get(h.first.ent.clone());
    c2.method = h.second_method.clone();
    c2.extra_polls = 0;
    let mut used = 0u8;
    let strong = etag.as_ref().is_some_and(|e| !cond::is_weak(e));
    if h.echo & 1 != 0 {
        if let Some(e) = &etag {
            c2.hdrs.push(("if-none-match".into(), e.clone()));
            used |= 1;
        }
    }
    if h.echo & 2 != 0 {
        if let Some(l) = &lm {
            c2.hdrs.push(("if-modified-since".into(), l.clone()));
            used |= 2;
        }
    }
    if h.echo & 4 != 0 && strong {
        c2.hdrs.push(("if-match".into(), etag.clone().unwrap()));
        used |= 4;
    }
    if h.echo & 8 != 0 {
        if let Some(l) = &lm {
            c2.hdrs.push(("if-unmodified-since".into(), l.clone()));
            used |= 8;
        }
    }
    if h.echo & 16 != 0 && strong && h.first.ent.len >= 4 {
        c2.hdrs.push(("if-range".into(), etag.clone().unwrap()));
        c2.hdrs.push(("range".into(), b"bytes=1-3".to_vec()));
        used |= 16;
    }
    if used == 0 {
        return (Verdict::Ok, None, render(None, None));
    }
    // date echoes of a future-dated entity depend on the clock of request 2: not judged
    let future = match (h.first.ent.mtime, r1.get("date").and_then(parse_imf)) {
        (Some((m, _)), Some(d)) => m >= d,
        _ => false,
    };
    let o2 = match run_serve(&c2) {
        Some(o) => o,
        None => return (Verdict::DontCare("inexpressible".into()), None, render(None, None)),
    };
    if o2.serve_panic.is_some() {
        return (Verdict::DontCare("serve panicked (C13)".into()), None, render(Some(&o2), Some(&c2)));
    }
    let s2 = o2.resp.as_ref().unwrap().status;
    sink.count(&format!("second_status_{}", s2));
    // RFC 7232 section 6 precedence over the echoed subset. A date echo of a future-dated entity
    // has a clock-dependent answer, which makes everything after it in the precedence order
    // undecidable here.
    let subsec = h.first.ent.mtime.is_some_and(|m| m.1 != 0);
    if used & 4 == 0 && used & 8 != 0 && future {
        return (Verdict::DontCare("If-Unmodified-Since echo of a future-dated entity".into()), None, render(Some(&o2), Some(&c2)));
    }
    if used & 12 != 0 && s2 == 412 {
        return (
            Verdict::viol(format!("echo-412|mask={}|subsec={}", used & 12, subsec), format!("echoing served validators (mask {}) yielded 412", used)),
            None,
            render(Some(&o2), Some(&c2)),
        );
    }
    if used & 1 != 0 || used & 2 != 0 {
        if used & 1 == 0 && future {
            return (Verdict::DontCare("If-Modified-Since echo of a future-dated entity".into()), None, render(Some(&o2), Some(&c2)));
        }
        if s2 != 304 {
            return (
                Verdict::viol(format!("echo-not-304|mask={}|got={}|subsec={}", used & 3, s2, subsec), format!("echoing served validators (mask {}) yielded {} instead of 304", used, s2)),
                None,
                render(Some(&o2), Some(&c2)),
            );
        }
    } else if used & 16 != 0 {
        // If-Range with the served strong ETag must yield the requested 206
        let r2 = o2.resp.as_ref().unwrap();
        let ok = s2 == 206 && r2.get("content-range").and_then(parse_content_range) == Some(ContentRange::Range(1, 3, h.first.ent.len));
        if !ok {
            return (
                Verdict::viol(format!("echo-if-range|got={}", s2), format!("If-Range with the served strong ETag + Range bytes=1-3 yielded {} {:?}", s2, r2.get("content-range").map(show))),
                None,
                render(Some(&o2), Some(&c2)),
            );
        }
        sink.count("if_range_echo_206");
    }
    sink.count("round_trips_judged");
    (Verdict::Ok, Some(hash64(h)), render(Some(&o2), Some(&c2)))
}

fn c14_mtimes(now_sec: u64) -> Vec<Option<(u64, u32)>> {
    vec![None, Some((0, 0)), Some((FIXED_SEC, 0)), Some((FIXED_SEC, 1_000_000)), Some((FIXED_SEC, 1)), Some((FIXED_SEC, 999_999_999)), Some((now_sec + 86_400, 250_000_000)), Some((now_sec + 3, 0)), Some((now_sec + 3600, 999_999_999)), Some((253_402_300_800, 0)), Some((1_000_000_000_000, 5))]
}

fn c14_firsts() -> Vec<Vec<(&'static str, &'static [u8])>> {
    vec![
        vec![],
        vec![("range", b"bytes=1-3")],
        vec![("range", b"bytes=0-1, 5-6")],
        vec![("range", b"bytes=5000-")],
        vec![("if-match", b"\"nope\"")],
        vec![("if-none-match", b"*")],
        vec![("range", b"bytes=0-1, 5-6"), ("if-range", b"\"v1\"")],
        vec![("range", b"bytes=2-4"), ("if-range", b"\"v1\"")],
        // two ranges that are together not smaller than the entity (len 1000): the whole entity is
        // sent with 200, with and without a matching If-Range
        vec![("range", b"bytes=0-600,500-999")],
        vec![("range", b"bytes=0-600,500-999"), ("if-range", b"\"v1\"")],
        // If-Range that does not match: Range ignored, 200
        vec![("range", b"bytes=1-3"), ("if-range", b"\"other\"")],
        vec![("range", b"bytes=1-3"), ("if-match", b"*"), ("if-none-match", b"\"nope\"")],
    ]
}

impl Prop for C14 {
    fn id(&self) -> &'static str {
        "C14"
    }
    fn level(&self) -> &'static str {
        "exploration"
    }
    fn rule(&self, _: &Ctx) -> String {
        "all two-request histories over: ETag {absent, strong, weak} x mtime {absent, epoch, whole second, +1ms, +1ns, +999999999ns, now+1day, now+3s, now+1h, year 10000, year 33658} x entity header sets {none, 1, 3, repeated name} x first request {plain, single range, multi range, unsatisfiable, failing If-Match, matching If-None-Match, multi/single range + If-Range, multi-range answered with the whole entity with/without If-Range, non-matching If-Range, passing preconditions + range}; plus the 250-request shape product (Range kind x If-Range kind x precondition) for every ETag x header set, first response only; and two histories in which the modification time lies 1-2 s ahead of the clock at the first request and has passed at the following ones (same thread) x all 32 subsets of echoed validators (If-None-Match, If-Modified-Since, If-Match, If-Unmodified-Since, If-Range+Range) x GET/HEAD. Non-trivial = distinct history whose first response headers were checked and (if anything was echoed) whose second status was compared with the round-trip rule".into()
    }
    fn n_blocks(&self, ctx: &Ctx) -> usize {
        3 * 11 * 4 + if ctx.leg.slow() { 0 } else { 10 } + 21 + if ctx.leg.slow() { 0 } else { 2 }
    }
    fn exhaustive(&self, _: &Ctx) -> bool {
        true
    }
    fn run_block(&self, b: usize, sink: &mut Sink) {
        let now = std::time::SystemTime::now().duration_since(std::time::UNIX_EPOCH).unwrap().as_secs();
        let n_slow_cb = if sink.ctx.leg.slow() { 0 } else { 10 };
        if b >= 3 * 11 * 4 + n_slow_cb + 21 {
            // a modification time that lies in the future at the first request and in the past at
            // the second one, same thread, same entity: the second response must show the true
            // (truncated) modification time. Workload shaping by waiting; no time in any verdict.
            let k = b - (3 * 11 * 4 + n_slow_cb + 21);
            let now = std::time::SystemTime::now().duration_since(std::time::UNIX_EPOCH).unwrap();
            let m = (now.as_secs() + 1 + k as u64, [150_000_000u32, 900_000_000][k % 2]);
            let ent = EntSpec { len: 1000, etag: Some(b"\"v1\"".to_vec()), mtime: Some(m), hdrs: vec![("content-type".into(), b"text/plain".to_vec())], plan: ChunkPlan::default(), fault: None, slow_calls: false, content_mode: 0 };
            let mut c = ServeCase::get(ent);
            c.extra_polls = 0;
            let h = History { first: c.clone(), echo: 0, second_method: "GET".into() };
            if !sink.admit() {
                return;
            }
            let (v1, _, r1) = c14_run(&h, sink);
            if !matches!(v1, Verdict::Ok) {
                sink.record(v1, None, &|| r1.clone());
                return;
            }
            // wait until the modification time has passed
            for _ in 0..6000 {
                let t = std::time::SystemTime::now().duration_since(std::time::UNIX_EPOCH).unwrap();
                if (t.as_secs(), t.subsec_nanos()) > (m.0, m.1 + 50_000_000) {
                    break;
                }
                std::thread::sleep(std::time::Duration::from_millis(5));
            }
            for echo in [0u8, 2, 8] {
                let h2 = History { first: c.clone(), echo, second_method: "GET".into() };
                let (v, nt, rendered) = c14_run(&h2, sink);
                sink.count("mtime_passed_between_requests");
                sink.record(v, nt, &|| rendered.clone());
            }
            return;
        }
        if b >= 3 * 11 * 4 + n_slow_cb {
            // the request-shape product, first response only
            let k = b - (3 * 11 * 4 + n_slow_cb);
            let etags: [Option<&[u8]>; 3] = [None, Some(b"\"v1\""), Some(b"W/\"v1\"")];
            let hdrs = c06_hdr_sets()[k / 3].clone();
            let ent = EntSpec { len: 1000, etag: etags[k % 3].map(|e| e.to_vec()), mtime: Some((FIXED_SEC, 500_000_000)), hdrs, plan: ChunkPlan::default(), fault: None, slow_calls: false, content_mode: 0 };
            for (i, shape) in crate::gen::shape_requests(&ent).into_iter().enumerate() {
                if sink.ctx.leg.slow() && i % 7 != 0 {
                    continue;
                }
                for m in ["GET", "HEAD"] {
                    let mut c = ServeCase::get(ent.clone());
                    c.method = m.into();
                    c.extra_polls = 0;
                    c.hdrs = shape.clone();
                    let h = History { first: c, echo: 0, second_method: "GET".into() };
                    if !sink.admit() {
                        continue;
                    }
                    let (v, nt, rendered) = c14_run(&h, sink);
                    sink.count("shape_product_requests");
                    sink.record(v, nt, &|| rendered.clone());
                }
            }
            return;
        }
        if b >= 3 * 11 * 4 {
            // entity whose metadata callbacks each straddle a second boundary: Date and
            // Last-Modified must still be consistent (one block per case: they sleep)
            let k = b - 3 * 11 * 4;
            let firsts = c14_firsts();
            let first = &firsts[[0usize, 1, 3, 4, 5][k % 5]];
            let mtime = if k < 5 { Some((now + 86_400, 250_000_000)) } else { Some((FIXED_SEC, 500_000_000)) };
            let ent = EntSpec { len: 1000, etag: Some(b"\"v1\"".to_vec()), mtime, hdrs: vec![("content-type".into(), b"text/plain".to_vec())], plan: ChunkPlan::default(), fault: None, slow_calls: true, content_mode: 0 };
            let mut c = ServeCase::get(ent);
            c.extra_polls = 0;
            for (k2, v) in first {
                c.hdrs.push((k2.to_string(), v.to_vec()));
            }
            let h = History { first: c, echo: 0, second_method: "GET".into() };
            if sink.admit() {
                let (v, nt, rendered) = c14_run(&h, sink);
                sink.count("slow_callback_cases");
                sink.record(v, nt, &|| rendered.clone());
            }
            return;
        }
        let etags: [Option<&[u8]>; 3] = [None, Some(b"\"v1\""), Some(b"W/\"v1\"")];
        let mut etag = etags[b % 3];
        let mtime = c14_mtimes(now)[(b / 3) % 11];
        // half of the blocks: opaque part with obs-text bytes and characters that lists split on
        if (b / 33) % 2 == 1 {
            etag = [None, Some(&b"\"r\xe9v, \xfc-1\""[..]), Some(&b"W/\"r\xe9v, \xfc-1\""[..])][b % 3];
        }
        let hdr_sets = c06_hdr_sets();
        let hdrs = hdr_sets[[0usize, 1, 2, 4][b / 33]].clone();
        let slow = sink.ctx.leg.slow();
        for first in c14_firsts() {
            for echo in 0u8..32 {
                if sink.stopped() {
                    return;
                }
                if slow && ![0, 1, 2, 8, 12, 16, 31].contains(&echo) {
                    continue;
                }
                for m2 in ["GET", "HEAD"] {
                    if echo == 0 && m2 == "HEAD" {
                        continue;
                    }
                    for m1 in ["GET", "HEAD"] {
                        if m1 == "HEAD" && echo != 0 {
                            continue;
                        }
                        let ent = EntSpec { len: 1000, etag: etag.map(|e| e.to_vec()), mtime, hdrs: hdrs.clone(), plan: ChunkPlan::default(), fault: None, slow_calls: false, content_mode: 0 };
                        let mut c = ServeCase::get(ent);
                        c.method = m1.into();
                        c.extra_polls = 0;
                        for (k, v) in &first {
                            c.hdrs.push((k.to_string(), v.to_vec()));
                        }
                        let h = History { first: c, echo, second_method: m2.into() };
                        if !sink.admit() {
                            continue;
                        }
                        let (v, nt, rendered) = c14_run(&h, sink);
                        sink.record(v, nt, &|| rendered.clone());
                    }
                }
            }
        }
    }
    fn replay(&self, case: &Value, sink: &mut Sink) {
        let h = History::from_json(if case.get("history").is_some() { &case["history"] } else { case });
        let (v, nt, rendered) = c14_run(&h, sink);
        sink.record(v, nt, &|| rendered.clone());
    }
    fn floors(&self, _: &Ctx) -> Vec<(&'static str, u64)> {
        vec![("round_trips_judged", 1000), ("future_mtime_clamped", 10), ("past_mtime_truncated", 100), ("if_range_echo_206", 10), ("multipart_parts_header_checked", 10), ("first_status_304", 1), ("first_status_412", 1), ("first_status_416", 1), ("slow_callback_cases", 10), ("shape_product_requests", 5000), ("mtime_passed_between_requests", 3)]
    }
    fn assumptions(&self) -> Vec<String> {
        vec!["Last-Modified is judged against the response's own Date (no clock read by the oracle); date echoes of a future-dated entity are not judged (their right answer depends on the clock of the second request); presence of Date without an mtime and headers of 400/405/413 are not judged".into()]
    }
}

// =================================================================================== C15 ====

pub struct C15;

fn c15_run(c: &ServeCase, sink: &mut Sink) -> (Verdict, Option<u64>, Value) {
    let mut g = c.clone();
    g.method = "GET".into();
    let mut h = c.clone();
    h.method = "HEAD".into();
    let (og, oh) = match (run_serve(&g), run_serve(&h)) {
        (Some(a), Some(b)) => (a, b),
        _ => return (Verdict::DontCare("inexpressible".into()), None, json!(null)),
    };
    let render = || json!({"case": c.to_json(), "get": og.to_json(), "head": oh.to_json()});
    if og.serve_panic.is_some() || oh.serve_panic.is_some() {
        if og.serve_panic.is_some() != oh.serve_panic.is_some() {
            return (Verdict::viol("panic-on-one-method-only", format!("GET panic {:?}, HEAD panic {:?}", og.serve_panic, oh.serve_panic)), None, render());
        }
        return (Verdict::DontCare("serve panicked (C13)".into()), None, render());
    }
    let (rg, rh) = (og.resp.as_ref().unwrap(), oh.resp.as_ref().unwrap());
    if rg.status != rh.status {
        return (Verdict::viol(format!("status|get={}|head={}", rg.status, rh.status), format!("GET {} vs HEAD {}", rg.status, rh.status)), None, render());
    }
    let strip = |r: &crate::e1::Resp| {
        let mut v: Vec<(String, Vec<u8>)> = r.hdrs.iter().filter(|(k, _)| k != "date" && k != "last-modified").cloned().collect();
        v.sort();
        v
    };
    let (hg, hh) = (strip(rg), strip(rh));
    if hg != hh {
        let missing: Vec<String> = hg.iter().filter(|x| !hh.contains(x)).map(|(k, _)| k.clone()).collect();
        let extra: Vec<String> = hh.iter().filter(|x| !hg.contains(x)).map(|(k, _)| k.clone()).collect();
        return (
            Verdict::viol(format!("headers|{}|missing={}|extra={}", rg.status, missing.join("+"), extra.join("+")), format!("HEAD headers differ from GET: missing {:?}, extra/different {:?}", missing, extra)),
            None,
            render(),
        );
    }
    // Date / Last-Modified must at least be present on both or neither
    for k in ["date", "last-modified"] {
        if rg.get(k).is_some() != rh.get(k).is_some() {
            return (Verdict::viol(format!("headers|{}|presence-of-{}", rg.status, k), format!("{} present on one of GET/HEAD only", k)), None, render());
        }
    }
    let dh = oh.drain.as_ref().unwrap();
    if [200u16, 206, 304, 416].contains(&rh.status) && (dh.total > 0 || !matches!(dh.terminal, Terminal::End)) {
        return (Verdict::viol(format!("head-body|{}", rh.status), format!("HEAD {} body delivered {} bytes, terminal {:?}", rh.status, dh.total, dh.terminal)), None, render());
    }
    if !oh.rec.get_range.is_empty() {
        return (Verdict::viol(format!("head-read-entity|{}", rh.status), format!("HEAD called get_range {:?}", oh.rec.get_range)), None, render());
    }
    sink.count(&format!("pair_status_{}", rh.status));
    if rh.get("content-type").is_some_and(|t| t.starts_with(b"multipart/")) {
        sink.count("pair_multipart");
    }
    (Verdict::Ok, Some(hash64(c)), render())
}

impl Prop for C15 {
    fn id(&self) -> &'static str {
        "C15"
    }
    fn level(&self) -> &'static str {
        "exploration"
    }
    fn rule(&self, _: &Ctx) -> String {
        "every request of the C01 workload (length x chunk plan x Range values x conditional combinations), the C06 multi-range workload, the 250-request shape product (Range kind x If-Range kind x precondition) for 7 entity header sets incl. repeated header names, random C13 requests, sent once as GET and once as HEAD; and streaming_body built for GET and for HEAD over 6 Accept-Encoding values x 4 levels x 2 chunk sizes x both request representations. Non-trivial = distinct request whose GET/HEAD status, header multisets (minus Date/Last-Modified), empty HEAD body and zero get_range calls were compared".into()
    }
    fn n_blocks(&self, ctx: &Ctx) -> usize {
        let s = c01_space(ctx);
        s.lens.len() * 2 + 32 + c06_hdr_sets().len() + 1
    }
    fn run_block(&self, b: usize, sink: &mut Sink) {
        let ctx = sink.ctx.clone();
        let s = c01_space(&ctx);
        let mut rng = Rng::from_parts(ctx.seed, &[15, b as u64]);
        let run = |c: &ServeCase, sink: &mut Sink| {
            if !sink.admit() {
                return;
            }
            let (v, nt, rendered) = c15_run(c, sink);
            sink.record(v, nt, &|| rendered.clone());
        };
        if b < s.lens.len() * 2 {
            let len = s.lens[b / 2];
            let mut ent = default_ent(len);
            if b % 2 == 1 {
                ent.mtime = Some((FIXED_SEC, 500_000_000));
                ent.hdrs.push(("x-extra".into(), b"1".to_vec()));
                // repeated names: the comparison is between multisets
                ent.hdrs.push(("link".into(), b"</a>; rel=prev".to_vec()));
                ent.hdrs.push(("x-extra".into(), b"2".to_vec()));
                ent.hdrs.push(("link".into(), b"</b>; rel=next".to_vec()));
            }
            let conds = cond_combos(&ent, &mut rng, if thorough(&ctx) { 60 } else { 20 });
            for rv in range_values(len, &mut rng) {
                if sink.stopped() {
                    return;
                }
                for cond in &conds {
                    let mut c = ServeCase::get(ent.clone());
                    c.cap = 1 << 12;
                    c.extra_polls = 0;
                    if let Some(rv) = &rv {
                        c.hdrs.push(("range".into(), rv.clone()));
                    }
                    c.hdrs.extend(cond.iter().cloned());
                    run(&c, sink);
                }
            }
            // multipart-eligible multi-range requests
            if len >= 400 {
                for k in 0..20u64 {
                    let a = rng.below(len - 10);
                    let b2 = rng.below(len - 10);
                    let mut c = ServeCase::get(ent.clone());
                    c.cap = 1 << 12;
                    c.extra_polls = 0;
                    c.hdrs.push(("range".into(), format!("bytes={}-{},{}-{}", a, a + k % 5, b2, b2 + 1).into_bytes()));
                    if k % 3 == 0 {
                        c.hdrs.push(("if-range".into(), b"\"v1\"".to_vec()));
                    }
                    run(&c, sink);
                }
            }
        } else if b == s.lens.len() * 2 + 32 + c06_hdr_sets().len() {
            // streaming_body: HEAD gets the same status and headers as GET, no writer, an empty body
            for ae in [None, Some(&b"gzip"[..]), Some(b"identity"), Some(b"*"), Some(b"gzip;q=0.5, identity;q=0.4"), Some(b"br")] {
                for level in [None, Some(0u32), Some(1), Some(9)] {
                    for chunk in [1usize, 4096] {
                        for via_parts in [false, true] {
                            if !sink.admit() {
                                continue;
                            }
                            let mk = |method: &str| crate::e2::StreamCase { method: method.into(), accept_encoding: ae.map(|v| v.to_vec()), chunk, gzip_level: level, via_parts, payload: crate::e2::Payload::Text, ops: vec![crate::e2::Op::WriteAll(100)], extra_polls: 1, fresh_wakers: false, prelude: 0, builder_detour: 0, noise: 0, version: 0 };
                            let (g, h) = match (crate::e2::run_stream(&mk("GET")), crate::e2::run_stream(&mk("HEAD"))) {
                                (Some(g), Some(h)) => (g, h),
                                _ => continue,
                            };
                            let desc = json!({"streaming_body": mk("HEAD").to_json(), "get": g.to_json(), "head": h.to_json()});
                            let sorted = |o: &crate::e2::StreamObs| {
                                let mut v = o.hdrs.clone();
                                v.sort();
                                v
                            };
                            let v = if g.build_panic.is_some() || h.build_panic.is_some() {
                                Verdict::DontCare("build panicked (C17)".into())
                            } else if g.status != h.status || sorted(&g) != sorted(&h) {
                                Verdict::viol("streaming-head-headers-differ", format!("GET {} {:?} vs HEAD {} {:?}", g.status, sorted(&g), h.status, sorted(&h)))
                            } else if h.writer_returned || !g.writer_returned {
                                Verdict::viol("streaming-head-writer", format!("writer returned: GET {}, HEAD {}", g.writer_returned, h.writer_returned))
                            } else if !h.delivered.is_empty() || !h.all_polls().any(|p| p.ev == crate::bodymon::Ev::End) || h.all_polls().next().is_some_and(|p| p.upper != Some(0) || p.lower != 0) {
                                Verdict::viol("streaming-head-body-not-empty", format!("HEAD body delivered {} bytes; first size hint {:?}", h.delivered.len(), h.all_polls().next().map(|p| (p.lower, p.upper))))
                            } else {
                                sink.count("streaming_head_pairs");
                                Verdict::Ok
                            };
                            sink.record(v, Some(hash64(&mk("HEAD"))), &|| desc.clone());
                        }
                    }
                }
            }
        } else if b >= s.lens.len() * 2 + 32 {
            // the request-shape product for every entity header set
            let k = b - (s.lens.len() * 2 + 32);
            for (len, mtime) in [(1000u64, Some((FIXED_SEC, 500_000_000))), (12, None)] {
                let mut ent = default_ent(len);
                ent.hdrs = c06_hdr_sets()[k].clone();
                ent.mtime = mtime;
                for (i, shape) in crate::gen::shape_requests(&ent).into_iter().enumerate() {
                    if ctx.leg.slow() && i % 11 != 0 {
                        continue;
                    }
                    let mut c = ServeCase::get(ent.clone());
                    c.cap = 1 << 12;
                    c.extra_polls = 0;
                    c.hdrs = shape;
                    run(&c, sink);
                    sink.count("shape_product_requests");
                }
            }
        } else {
            let n = if ctx.leg.slow() { 50 } else if thorough(&ctx) { 20_000 } else { 2_000 };
            for _ in 0..n {
                if sink.stopped() {
                    return;
                }
                let mut c = c13_case(&mut rng);
                c.extra_polls = 0;
                run(&c, sink);
            }
        }
    }
    fn replay(&self, case: &Value, sink: &mut Sink) {
        let c = ServeCase::from_json(if case.get("case").is_some() { &case["case"] } else { case });
        let (v, nt, rendered) = c15_run(&c, sink);
        sink.record(v, nt, &|| rendered.clone());
    }
    fn floors(&self, _: &Ctx) -> Vec<(&'static str, u64)> {
        vec![("pair_status_200", 1000), ("pair_status_206", 1000), ("pair_status_304", 100), ("pair_status_412", 100), ("pair_status_416", 100), ("pair_multipart", 100), ("shape_product_requests", 1000), ("streaming_head_pairs", 90)]
    }
    fn assumptions(&self) -> Vec<String> {
        vec!["the streaming_body half of the statement (same headers, no writer, empty body for HEAD) is judged here on 96 configurations and, over the whole negotiation space, by C17".into()]
    }
}
