//! Engine E1: drives `http_serve::serve` with a harness entity and drains the body under the
//! body monitor.

use crate::bodymon::{drain, Drain};
use crate::ent::{EntRec, EntSpec, MonEntity};
use crate::util::{bytes_from_json, bytes_to_json};
use http::header::{HeaderName, HeaderValue};
use http_body::Body as _;
use serde_json::{json, Value};

#[derive(Clone, Debug, PartialEq, Eq, Hash)]
pub struct ServeCase {
    pub method: String,
    /// request headers in order; repeated names are appended
    pub hdrs: Vec<(String, Vec<u8>)>,
    pub ent: EntSpec,
    pub cap: u64,
    pub extra_polls: usize,
    /// Entity::Data type: 0 = bytes::Bytes, 1 = a non-contiguous multi-segment Buf
    pub data_kind: u8,
    /// request version: 0 = the `http` crate's default (HTTP/1.1), 1 = HTTP/1.0, 2 = HTTP/0.9,
    /// 3 = HTTP/2, 4 = HTTP/3
    pub version: u8,
}

pub fn version_of(v: u8) -> http::Version {
    match v {
        1 => http::Version::HTTP_10,
        2 => http::Version::HTTP_09,
        3 => http::Version::HTTP_2,
        4 => http::Version::HTTP_3,
        _ => http::Version::HTTP_11,
    }
}

impl ServeCase {
    pub fn get(ent: EntSpec) -> ServeCase {
        ServeCase {
            method: "GET".into(),
            hdrs: Vec::new(),
            ent,
            cap: 1 << 18,
            extra_polls: 2,
            data_kind: 0,
            version: 0,
        }
    }
    pub fn with(mut self, name: &str, v: &[u8]) -> ServeCase {
        self.hdrs.push((name.to_string(), v.to_vec()));
        self
    }
    pub fn hdr(&self, name: &str) -> Option<&[u8]> {
        self.hdrs
            .iter()
            .find(|(k, _)| k.eq_ignore_ascii_case(name))
            .map(|(_, v)| &v[..])
    }
    pub fn to_json(&self) -> Value {
        json!({
            "method": self.method,
            "hdrs": self.hdrs.iter().map(|(k, v)| json!([k, bytes_to_json(v)])).collect::<Vec<_>>(),
            "ent": self.ent.to_json(),
            "cap": self.cap,
            "extra_polls": self.extra_polls,
            "data_kind": self.data_kind,
            "version": self.version,
        })
    }
    pub fn from_json(v: &Value) -> ServeCase {
        ServeCase {
            method: v["method"].as_str().unwrap_or("GET").to_string(),
            hdrs: v["hdrs"]
                .as_array()
                .map(|a| {
                    a.iter()
                        .map(|kv| (kv[0].as_str().unwrap_or("").to_string(), bytes_from_json(&kv[1])))
                        .collect()
                })
                .unwrap_or_default(),
            ent: EntSpec::from_json(&v["ent"]),
            cap: v["cap"].as_u64().unwrap_or(1 << 18),
            extra_polls: v["extra_polls"].as_u64().unwrap_or(2) as usize,
            data_kind: v["data_kind"].as_u64().unwrap_or(0) as u8,
            version: v["version"].as_u64().unwrap_or(0) as u8,
        }
    }
}

#[derive(Clone, Debug)]
pub struct Resp {
    pub status: u16,
    /// lower-case names, in map iteration order, repeated names kept
    pub hdrs: Vec<(String, Vec<u8>)>,
}

impl Resp {
    pub fn get(&self, name: &str) -> Option<&[u8]> {
        self.hdrs.iter().find(|(k, _)| k == name).map(|(_, v)| &v[..])
    }
    pub fn count(&self, name: &str) -> usize {
        self.hdrs.iter().filter(|(k, _)| k == name).count()
    }
    pub fn get_u64(&self, name: &str) -> Option<u64> {
        let v = self.get(name)?;
        if v.is_empty() || !v.iter().all(|c| c.is_ascii_digit()) {
            return None;
        }
        std::str::from_utf8(v).ok()?.parse().ok()
    }
    pub fn to_json(&self) -> Value {
        json!({
            "status": self.status,
            "hdrs": self.hdrs.iter().map(|(k, v)| json!([k, bytes_to_json(v)])).collect::<Vec<_>>(),
        })
    }
}

#[derive(Clone, Debug)]
pub struct ServeObs {
    pub serve_panic: Option<String>,
    pub resp: Option<Resp>,
    /// size hint and end flag of the body before the first poll
    pub init_hint: (u64, Option<u64>),
    pub init_is_end: bool,
    /// entity record at the moment `serve` returned
    pub rec_at_return: EntRec,
    pub drain: Option<Drain>,
    /// entity record after draining
    pub rec: EntRec,
}

impl ServeObs {
    pub fn to_json(&self) -> Value {
        json!({
            "serve_panic": self.serve_panic,
            "resp": self.resp.as_ref().map(|r| r.to_json()),
            "init_hint": [self.init_hint.0, self.init_hint.1],
            "drain": self.drain.as_ref().map(|d| d.summary()),
            "get_range_calls": self.rec.get_range.iter().map(|(a, b)| json!([a.to_string(), b.to_string()])).collect::<Vec<_>>(),
            "add_headers_calls": self.rec.add_headers,
        })
    }
}

pub fn build_request(case: &ServeCase) -> Option<http::Request<()>> {
    let mut req = http::Request::builder()
        .method(http::Method::from_bytes(case.method.as_bytes()).ok()?)
        .uri("/")
        .body(())
        .ok()?;
    *req.version_mut() = version_of(case.version);
    for (k, v) in &case.hdrs {
        let k = HeaderName::from_bytes(k.as_bytes()).ok()?;
        let v = HeaderValue::from_bytes(v).ok()?;
        req.headers_mut().append(k, v);
    }
    Some(req)
}

/// Runs one case. `None` if the case cannot be expressed with the `http` crate's types (then it
/// is outside every quantifier).
pub fn run_serve(case: &ServeCase) -> Option<ServeObs> {
    if case.data_kind == 1 {
        run_serve_typed::<crate::segbuf::SegBuf>(case)
    } else {
        run_serve_typed::<bytes::Bytes>(case)
    }
}

fn run_serve_typed<D: crate::ent::HData>(case: &ServeCase) -> Option<ServeObs> {
    let req = build_request(case)?;
    let (ent, rec) = MonEntity::<D>::new(case.ent.clone());
    let r = crate::util::catch(|| http_serve::serve(ent, &req));
    let resp = match r {
        Err(p) => {
            let rec = rec.lock().unwrap().clone();
            return Some(ServeObs {
                serve_panic: Some(p),
                resp: None,
                init_hint: (0, None),
                init_is_end: false,
                rec_at_return: rec.clone(),
                drain: None,
                rec,
            });
        }
        Ok(r) => r,
    };
    let rec_at_return = rec.lock().unwrap().clone();
    let (parts, body) = resp.into_parts();
    let hdrs = parts
        .headers
        .iter()
        .map(|(k, v)| (k.as_str().to_string(), v.as_bytes().to_vec()))
        .collect();
    let h = body.size_hint();
    let init_is_end = body.is_end_stream();
    let d = drain(body, case.cap, case.extra_polls);
    let rec = rec.lock().unwrap().clone();
    Some(ServeObs {
        serve_panic: None,
        resp: Some(Resp {
            status: parts.status.as_u16(),
            hdrs,
        }),
        init_hint: (h.lower(), h.upper()),
        init_is_end,
        rec_at_return,
        drain: Some(d),
        rec,
    })
}

pub fn case_with_obs(case: &ServeCase, obs: &ServeObs) -> Value {
    json!({ "case": case.to_json(), "observed": obs.to_json() })
}
