//! Hand-written decoding of fuzz bytes into cases (`derive_arbitrary` is not available offline),
//! shared by the libFuzzer targets and by the native replay of their artifacts.

use crate::driver::{Ctx, Leg, Shared, Sink, Tier, Verdict};
use crate::e1::{run_serve, ServeCase};
use crate::ent::EntSpec;
use crate::gen::FIXED_SEC;
use crate::p_serve::{c13_judge, C13_HEADERS, C13_METHODS};
use serde_json::{json, Value};
use std::sync::atomic::{AtomicBool, AtomicU64};

fn legal(b: u8) -> u8 {
    match b {
        b'\t' | 0x20..=0x7e | 0x80..=0xff => b,
        0x7f => b'~',
        _ => b + 0x20,
    }
}

const DICT: [&[u8]; 24] = [
    b"bytes=", b"bytes=0-", b"bytes=-", b"-", b",", b", ", b"18446744073709551615", b"18446744073709551616", b"9223372036854775808", b"0", b"1",
    b"\"v1\"", b"W/\"v1\"", b"*", b"\"", b"W/", b"Thu, 29 Feb 2024 00:00:00 GMT", b"Thursday, 29-Feb-24 00:00:00 GMT", b"Thu Feb 29 00:00:00 2024", b" GMT", b"\"a, b\"", b"=", b"items=", b"\t",
];

fn take_u64(it: &mut impl Iterator<Item = u8>) -> Option<u64> {
    let mut v = 0u64;
    for i in 0..8 {
        v |= (it.next()? as u64) << (8 * i);
    }
    Some(v)
}

pub fn decode_serve(data: &[u8]) -> Option<ServeCase> {
    let mut it = data.iter().copied();
    let m = it.next()?;
    let e = it.next()?;
    let nh = it.next()? % 6;
    // entity length: from a table, or (selector 7) any u64 taken from the input in binary, so that
    // the fuzzer's comparison tracing can steer it towards constants the code compares against
    let len = if e % 8 == 7 { take_u64(&mut it)? } else { [0u64, 1, 10, 240, 1000, 1 << 32, 1 << 63][(e % 8) as usize] };
    let mut ent = EntSpec { len, ..Default::default() };
    if e & 8 != 0 {
        ent.etag = Some(if e & 16 != 0 { b"W/\"v1\"".to_vec() } else { b"\"v1\"".to_vec() });
    }
    if e & 32 != 0 {
        ent.mtime = Some((FIXED_SEC, if e & 64 != 0 { 500_000_000 } else { 0 }));
    }
    if e & 128 != 0 {
        ent.hdrs.push(("content-type".into(), b"text/plain".to_vec()));
    }
    let mut c = ServeCase::get(ent);
    c.cap = 1 << 12;
    c.method = if m < 128 { "GET".into() } else { C13_METHODS[(m as usize) % C13_METHODS.len()].to_string() };
    if m & 64 != 0 {
        c.ent.hdrs.push(("x-meta".into(), vec![b'm'; 200]));
    }
    for _ in 0..nh {
        let name = C13_HEADERS[(it.next()? as usize) % C13_HEADERS.len()];
        let n = it.next()?;
        let mut v = Vec::new();
        if name == "range" && n >= 200 {
            // structured: 1..4 specs with binary positions, rendered as decimal text
            let k = (n - 200) % 4 + 1;
            v.extend_from_slice(b"bytes=");
            for i in 0..k {
                if i > 0 {
                    v.extend_from_slice(b", ");
                }
                let kind = it.next()? % 3;
                let a = take_u64(&mut it)?;
                match kind {
                    0 => {
                        let b = take_u64(&mut it)?;
                        v.extend_from_slice(format!("{}-{}", a, b).as_bytes());
                    }
                    1 => v.extend_from_slice(format!("{}-", a).as_bytes()),
                    _ => v.extend_from_slice(format!("-{}", a).as_bytes()),
                }
            }
        } else {
            let n = (n % 48) as usize;
            let mut k = 0;
            while k < n {
                let b = match it.next() {
                    Some(b) => b,
                    None => break,
                };
                k += 1;
                if b < 24 {
                    v.extend_from_slice(DICT[b as usize]);
                } else {
                    v.push(legal(b));
                }
            }
        }
        c.hdrs.push((name.to_string(), v));
    }
    Some(c)
}

fn with_sink<R>(f: impl FnOnce(&mut Sink) -> R) -> R {
    let ctx = Ctx { tier: Tier::Quick, leg: Leg::Asan, seed: 0, threads: 1, shard: (0, 1), max_cases: 0, stride: 1, time_budget_s: 0 };
    let shared = Shared { admitted: AtomicU64::new(0), stop: AtomicBool::new(false), started: std::time::Instant::now() };
    let mut sink = Sink::new(&ctx, &shared);
    f(&mut sink)
}

/// Some(message) if the C13 oracle rejects what `serve` did with the decoded request.
pub fn fuzz_serve(data: &[u8]) -> Option<String> {
    static HOOK: std::sync::Once = std::sync::Once::new();
    HOOK.call_once(crate::util::install_quiet_panic_hook);
    let c = decode_serve(data)?;
    // which property's oracle judges (the ./check leg sets it; default C13)
    static PROP: std::sync::OnceLock<String> = std::sync::OnceLock::new();
    let prop = PROP.get_or_init(|| std::env::var("HSV_FUZZ_PROP").unwrap_or_else(|_| "C13".into()));
    if prop == "C03" && c.hdrs.iter().any(|(k, _)| k != "range") {
        return None; // C03 speaks about requests carrying only a Range header
    }
    let o = run_serve(&c)?;
    with_sink(|sink| {
        let v = match prop.as_str() {
            "C01" => crate::p_serve::c01_judge(&c, &o, sink).0,
            "C02" => crate::p_serve::c02_judge(&c, &o, sink).0,
            "C03" => crate::p_serve::c03_judge(&c, &o, sink).0,
            "C06" => crate::p_serve::c06_judge(&c, &o, sink).0,
            _ => c13_judge(&c, &o, sink).0,
        };
        match v {
            Verdict::Violation { sig, msg } => Some(format!("{}: {}", sig, msg)),
            _ => None,
        }
    })
}

pub fn fuzz_should_gzip(data: &[u8]) -> Option<String> {
    static HOOK: std::sync::Once = std::sync::Once::new();
    HOOK.call_once(crate::util::install_quiet_panic_hook);
    with_sink(|sink| match crate::p_negot::judge_value(data, sink).0 {
        Verdict::Violation { sig, msg } => Some(format!("{}: {}", sig, msg)),
        _ => None,
    })
}

/// The replayable case a libFuzzer artifact stands for.
pub fn artifact_to_case(prop: &str, bytes: &[u8]) -> Value {
    match prop {
        "C16" => json!({ "accept_encoding": crate::util::bytes_to_json(bytes) }),
        _ => decode_serve(bytes).map(|c| c.to_json()).unwrap_or(json!({})),
    }
}
