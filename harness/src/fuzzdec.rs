//! Hand-written decoding of fuzz bytes into cases (`derive_arbitrary` is not available offline),
//! shared by the libFuzzer targets and by the native replay of their artifacts.

use crate::driver::{Ctx, Leg, Shared, Sink, Tier, Verdict};
use crate::e1::{run_serve, ServeCase};
use crate::ent::EntSpec;
use crate::gen::FIXED_SEC;
use crate::p_serve::{c13_judge, C13_HEADERS, C13_METHODS};
use serde_json::{json, Value};
use std::sync::atomic::{AtomicBool, AtomicU64};

fn legal(b: u8) -> u8 {
    match b {
        b'\t' | 0x20..=0x7e | 0x80..=0xff => b,
        0x7f => b'~',
        _ => b + 0x20,
    }
}

const DICT: [&[u8]; 24] = [
    b"bytes=", b"bytes=0-", b"bytes=-", b"-", b",", b", ", b"18446744073709551615", b"18446744073709551616", b"9223372036854775808", b"0", b"1",
    b"\"v1\"", b"W/\"v1\"", b"*", b"\"", b"W/", b"Thu, 29 Feb 2024 00:00:00 GMT", b"Thursday, 29-Feb-24 00:00:00 GMT", b"Thu Feb 29 00:00:00 2024", b" GMT", b"\"a, b\"", b"=", b"items=", b"\t",
];

pub fn decode_serve(data: &[u8]) -> Option<ServeCase> {
    let mut it = data.iter().copied();
    let m = it.next()?;
    let e = it.next()?;
    let nh = it.next()? % 6;
    let len = [0u64, 1, 10, 240, 1000, 1 << 32, 1 << 63, u64::MAX][(e % 8) as usize];
    let mut ent = EntSpec { len, ..Default::default() };
    if e & 8 != 0 {
        ent.etag = Some(if e & 16 != 0 { b"W/\"v1\"".to_vec() } else { b"\"v1\"".to_vec() });
    }
    if e & 32 != 0 {
        ent.mtime = Some((FIXED_SEC, if e & 64 != 0 { 500_000_000 } else { 0 }));
    }
    if e & 128 != 0 {
        ent.hdrs.push(("content-type".into(), b"text/plain".to_vec()));
    }
    let mut c = ServeCase::get(ent);
    c.cap = 1 << 12;
    c.method = if m < 128 { "GET".into() } else { C13_METHODS[(m as usize) % C13_METHODS.len()].to_string() };
    for _ in 0..nh {
        let name = C13_HEADERS[(it.next()? as usize) % C13_HEADERS.len()];
        let n = (it.next()? % 48) as usize;
        let mut v = Vec::new();
        let mut k = 0;
        while k < n {
            let b = match it.next() {
                Some(b) => b,
                None => break,
            };
            k += 1;
            if b < 24 {
                v.extend_from_slice(DICT[b as usize]);
            } else {
                v.push(legal(b));
            }
        }
        c.hdrs.push((name.to_string(), v));
    }
    Some(c)
}

fn with_sink<R>(f: impl FnOnce(&mut Sink) -> R) -> R {
    let ctx = Ctx { tier: Tier::Quick, leg: Leg::Asan, seed: 0, threads: 1, shard: (0, 1), max_cases: 0, stride: 1, time_budget_s: 0 };
    let shared = Shared { admitted: AtomicU64::new(0), stop: AtomicBool::new(false), started: std::time::Instant::now() };
    let mut sink = Sink::new(&ctx, &shared);
    f(&mut sink)
}

/// Some(message) if the C13 oracle rejects what `serve` did with the decoded request.
pub fn fuzz_serve(data: &[u8]) -> Option<String> {
    static HOOK: std::sync::Once = std::sync::Once::new();
    HOOK.call_once(crate::util::install_quiet_panic_hook);
    let c = decode_serve(data)?;
    let o = run_serve(&c)?;
    with_sink(|sink| match c13_judge(&c, &o, sink).0 {
        Verdict::Violation { sig, msg } => Some(format!("{}: {}", sig, msg)),
        _ => None,
    })
}

pub fn fuzz_should_gzip(data: &[u8]) -> Option<String> {
    static HOOK: std::sync::Once = std::sync::Once::new();
    HOOK.call_once(crate::util::install_quiet_panic_hook);
    with_sink(|sink| match crate::p_negot::judge_value(data, sink).0 {
        Verdict::Violation { sig, msg } => Some(format!("{}: {}", sig, msg)),
        _ => None,
    })
}

/// The replayable case a libFuzzer artifact stands for.
pub fn artifact_to_case(prop: &str, bytes: &[u8]) -> Value {
    match prop {
        "C16" => json!({ "accept_encoding": crate::util::bytes_to_json(bytes) }),
        _ => decode_serve(bytes).map(|c| c.to_json()).unwrap_or(json!({})),
    }
}
