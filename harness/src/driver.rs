//! Parallel case runner, verdict bookkeeping and result file.

use serde_json::{json, Map, Value};
use std::collections::{BTreeMap, HashSet};
use std::sync::atomic::{AtomicBool, AtomicU64, AtomicUsize, Ordering};
use std::time::Instant;

#[derive(Clone, Copy, PartialEq, Eq, Debug)]
pub enum Tier {
    Quick,
    Thorough,
}

/// Which build/tool this process runs under; slow legs run a subsample of the same workloads.
#[derive(Clone, Copy, PartialEq, Eq, Debug)]
pub enum Leg {
    Native,
    /// Plain `--release` (wrapping arithmetic, no debug assertions).
    ReleasePlain,
    Miri,
    Asan,
    Tsan,
    Memcheck,
}

impl Leg {
    pub fn slow(self) -> bool {
        matches!(self, Leg::Miri | Leg::Memcheck)
    }
    pub fn name(self) -> &'static str {
        match self {
            Leg::Native => "native",
            Leg::ReleasePlain => "release-plain",
            Leg::Miri => "miri",
            Leg::Asan => "asan",
            Leg::Tsan => "tsan",
            Leg::Memcheck => "memcheck",
        }
    }
}

#[derive(Clone, Debug)]
pub struct Ctx {
    pub tier: Tier,
    pub leg: Leg,
    pub seed: u64,
    pub threads: usize,
    /// Run only blocks with index % shard.1 == shard.0.
    pub shard: (usize, usize),
    /// Stop admitting cases after this many evaluations in this process (0 = unlimited).
    pub max_cases: u64,
    /// Admit one case in `stride` (1 = all).
    pub stride: u64,
    /// Stop admitting cases after this many seconds (0 = unlimited). Bounds the workload of the
    /// slow legs; never part of a verdict.
    pub time_budget_s: u64,
}

pub enum Verdict {
    Ok,
    DontCare(String),
    Violation { sig: String, msg: String },
}

impl Verdict {
    pub fn viol(sig: impl Into<String>, msg: impl Into<String>) -> Verdict {
        Verdict::Violation {
            sig: sig.into(),
            msg: msg.into(),
        }
    }
}

pub struct Shared {
    pub admitted: AtomicU64,
    pub stop: AtomicBool,
    pub started: Instant,
}

/// Worker-local accumulator.
pub struct Sink<'a> {
    pub ctx: &'a Ctx,
    shared: &'a Shared,
    pub evaluations: u64,
    seen: u64,
    pub nontrivial: HashSet<u64>,
    /// distinct non-trivial cases counted by an enumerator that never repeats a case
    pub nt_enumerated: u64,
    pub counters: BTreeMap<String, u64>,
    pub dont_care: BTreeMap<String, u64>,
    pub violations: BTreeMap<String, (u64, String, Value)>,
    pub samples: Vec<Value>,
    next_sample_at: u64,
    /// per-block admission budget (slow legs spread their case budget over all blocks)
    block_budget: u64,
    block_admitted: u64,
    pub notes: BTreeMap<String, (u64, String)>,
}

impl<'a> Sink<'a> {
    pub fn new(ctx: &'a Ctx, shared: &'a Shared) -> Self {
        Sink {
            ctx,
            shared,
            evaluations: 0,
            seen: 0,
            nontrivial: HashSet::new(),
            nt_enumerated: 0,
            counters: BTreeMap::new(),
            dont_care: BTreeMap::new(),
            violations: BTreeMap::new(),
            samples: Vec::new(),
            next_sample_at: 1,
            block_budget: u64::MAX,
            block_admitted: 0,
            notes: BTreeMap::new(),
        }
    }

    /// Called before executing a generated case; false = skip it (subsampling / budget).
    pub fn admit(&mut self) -> bool {
        if self.shared.stop.load(Ordering::Relaxed) || self.block_admitted >= self.block_budget {
            return false;
        }
        if self.ctx.time_budget_s > 0 && self.shared.started.elapsed().as_secs() >= self.ctx.time_budget_s {
            self.shared.stop.store(true, Ordering::Relaxed);
            return false;
        }
        self.seen += 1;
        if self.ctx.stride > 1 && (self.seen % self.ctx.stride) != 1 % self.ctx.stride {
            return false;
        }
        if self.ctx.max_cases > 0 {
            let n = self.shared.admitted.fetch_add(1, Ordering::Relaxed);
            if n >= self.ctx.max_cases {
                self.shared.stop.store(true, Ordering::Relaxed);
                return false;
            }
        }
        self.block_admitted += 1;
        true
    }

    pub fn globally_stopped(&self) -> bool {
        self.shared.stop.load(Ordering::Relaxed)
    }

    pub fn begin_block(&mut self, budget: u64) {
        self.block_budget = budget;
        self.block_admitted = 0;
    }

    /// Fast path for huge repetition-free enumerations: an executed case that held.
    pub fn ok_enumerated(&mut self, nontrivial: bool) {
        self.evaluations += 1;
        if nontrivial {
            self.nt_enumerated += 1;
        }
    }

    pub fn want_sample(&self) -> bool {
        self.evaluations >= self.next_sample_at && self.samples.len() < 12
    }

    pub fn push_sample(&mut self, v: Value) {
        self.samples.push(v);
        self.next_sample_at = self.evaluations * 4 + 1;
    }

    pub fn stopped(&self) -> bool {
        self.shared.stop.load(Ordering::Relaxed) || self.block_admitted >= self.block_budget
    }

    pub fn count(&mut self, key: &str) {
        self.add(key, 1);
    }

    pub fn add(&mut self, key: &str, n: u64) {
        if let Some(c) = self.counters.get_mut(key) {
            *c += n;
        } else {
            self.counters.insert(key.to_string(), n);
        }
    }

    pub fn max(&mut self, key: &str, n: u64) {
        let e = self.counters.entry(key.to_string()).or_insert(0);
        if n > *e {
            *e = n;
        }
    }

    /// A problem seen that belongs to another property: logged, never fails this one.
    pub fn cross_note(&mut self, key: &str, msg: impl FnOnce() -> String) {
        if let Some(e) = self.notes.get_mut(key) {
            e.0 += 1;
        } else {
            self.notes.insert(key.to_string(), (1, msg()));
        }
    }

    /// Records the judgement of one executed case. `nontrivial` is the hash of the case
    /// descriptor if the case satisfied the property's non-triviality rule. `case` renders the
    /// case (and what was observed) as JSON; it is only called for samples and violations.
    pub fn record(&mut self, verdict: Verdict, nontrivial: Option<u64>, case: &dyn Fn() -> Value) {
        self.evaluations += 1;
        let mut is_nt = false;
        if let Some(h) = nontrivial {
            is_nt = true;
            self.nontrivial.insert(h);
        }
        match verdict {
            Verdict::Ok => {}
            Verdict::DontCare(r) => {
                *self.dont_care.entry(r).or_insert(0) += 1;
            }
            Verdict::Violation { sig, msg } => {
                if let Some(e) = self.violations.get_mut(&sig) {
                    e.0 += 1;
                } else if self.violations.len() < 200 {
                    self.violations.insert(sig, (1, msg, case()));
                }
                return;
            }
        }
        if is_nt && self.evaluations >= self.next_sample_at && self.samples.len() < 12 {
            self.samples.push(case());
            self.next_sample_at = self.evaluations * 4 + 1;
        }
    }
}

pub trait Prop: Sync {
    fn id(&self) -> &'static str;
    /// EVIDENCE level: "exploration" or "fault_enumeration".
    fn level(&self) -> &'static str;
    fn rule(&self, ctx: &Ctx) -> String;
    fn n_blocks(&self, ctx: &Ctx) -> usize;
    fn run_block(&self, block: usize, sink: &mut Sink);
    fn replay(&self, case: &Value, sink: &mut Sink);
    /// Whether this run enumerates its (finite) space completely.
    fn exhaustive(&self, _ctx: &Ctx) -> bool {
        false
    }
    /// Coverage floors: (counter name, minimum). A native run that misses one is inconclusive.
    fn floors(&self, _ctx: &Ctx) -> Vec<(&'static str, u64)> {
        Vec::new()
    }
    fn assumptions(&self) -> Vec<String> {
        Vec::new()
    }
}

fn merge_into(dst: &mut Sink, src: Sink) {
    dst.evaluations += src.evaluations;
    dst.nontrivial.extend(src.nontrivial);
    dst.nt_enumerated += src.nt_enumerated;
    for (k, v) in src.counters {
        if k.starts_with("max_") {
            let e = dst.counters.entry(k).or_insert(0);
            if v > *e {
                *e = v;
            }
        } else {
            *dst.counters.entry(k).or_insert(0) += v;
        }
    }
    for (k, v) in src.dont_care {
        *dst.dont_care.entry(k).or_insert(0) += v;
    }
    for (k, v) in src.violations {
        if let Some(e) = dst.violations.get_mut(&k) {
            e.0 += v.0;
        } else {
            dst.violations.insert(k, v);
        }
    }
    for (k, v) in src.notes {
        if let Some(e) = dst.notes.get_mut(&k) {
            e.0 += v.0;
        } else {
            dst.notes.insert(k, v);
        }
    }
    dst.samples.extend(src.samples);
}

pub fn run(prop: &dyn Prop, ctx: &Ctx, replay: Option<&Value>) -> Value {
    let t0 = Instant::now();
    let shared = Shared {
        admitted: AtomicU64::new(0),
        stop: AtomicBool::new(false),
        started: Instant::now(),
    };
    let mut total = Sink::new(ctx, &shared);
    let mut blocks_run = 0usize;
    if let Some(case) = replay {
        prop.replay(case, &mut total);
    } else {
        let n = prop.n_blocks(ctx);
        let in_shard = (n + ctx.shard.1 - 1 - ctx.shard.0.min(n)) / ctx.shard.1;
        let per_block = if ctx.max_cases > 0 && in_shard > 0 { (ctx.max_cases + in_shard as u64 - 1) / in_shard as u64 } else { u64::MAX };
        let next = AtomicUsize::new(0);
        let done = AtomicUsize::new(0);
        let sinks: Vec<Sink> = std::thread::scope(|s| {
            let handles: Vec<_> = (0..ctx.threads.max(1))
                .map(|_| {
                    s.spawn(|| {
                        let mut sink = Sink::new(ctx, &shared);
                        loop {
                            let b = next.fetch_add(1, Ordering::Relaxed);
                            if b >= n || sink.globally_stopped() {
                                break;
                            }
                            if b % ctx.shard.1 != ctx.shard.0 {
                                continue;
                            }
                            sink.begin_block(per_block);
                            prop.run_block(b, &mut sink);
                            done.fetch_add(1, Ordering::Relaxed);
                        }
                        sink
                    })
                })
                .collect();
            handles
                .into_iter()
                .map(|h| h.join().expect("worker thread must not panic"))
                .collect()
        });
        blocks_run = done.load(Ordering::Relaxed);
        for s in sinks {
            merge_into(&mut total, s);
        }
    }

    let mut floors_missed = Vec::new();
    if replay.is_none() && ctx.leg == Leg::Native && ctx.max_cases == 0 && ctx.stride == 1 && ctx.time_budget_s == 0 {
        for (k, min) in prop.floors(ctx) {
            let got = total.counters.get(k).copied().unwrap_or(0);
            if got < min {
                floors_missed.push(format!("{}: {} < {}", k, got, min));
            }
        }
    }

    let mut samples = total.samples;
    // spread: keep at most 10, preferring later (larger) cases too
    if samples.len() > 10 {
        let step = samples.len() as f64 / 10.0;
        samples = (0..10)
            .map(|i| samples[(i as f64 * step) as usize].clone())
            .collect();
    }
    let violations: Vec<Value> = total
        .violations
        .iter()
        .map(|(sig, (n, msg, case))| json!({"signature": sig, "count": n, "message": msg, "case": case}))
        .collect();
    let notes: Map<String, Value> = total
        .notes
        .iter()
        .map(|(k, (n, m))| (k.clone(), json!({"count": n, "first": m})))
        .collect();
    json!({
        "property_id": prop.id(),
        "level": prop.level(),
        "tier": if ctx.tier == Tier::Quick { "quick" } else { "thorough" },
        "leg": ctx.leg.name(),
        "seed": ctx.seed,
        "replay": replay.is_some(),
        "evaluations": total.evaluations,
        "distinct_nontrivial": total.nontrivial.len() as u64 + total.nt_enumerated,
        "rule": prop.rule(ctx),
        "exhaustive": prop.exhaustive(ctx) && ctx.max_cases == 0 && ctx.stride == 1 && ctx.shard.1 == 1 && ctx.time_budget_s == 0,
        "blocks_total": if replay.is_some() { 0 } else { prop.n_blocks(ctx) },
        "blocks_run": blocks_run,
        "counters": total.counters,
        "dont_care": total.dont_care,
        "cross_notes": notes,
        "samples": samples,
        "violations": violations,
        "floors_missed": floors_missed,
        "assumptions": prop.assumptions(),
        "wall_s": t0.elapsed().as_secs_f64(),
    })
}
