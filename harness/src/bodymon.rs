//! Body monitor: polls any `http_body::Body`, sampling `size_hint()`/`is_end_stream()` before
//! every poll, recording every result, and polling on after the first terminal event.

use http_body::Body as HttpBody;
use serde_json::{json, Value};
use std::pin::Pin;
use std::sync::atomic::{AtomicU64, Ordering};
use std::sync::Arc;
use std::task::{Context, Poll, Wake, Waker};

#[derive(Clone, Debug, PartialEq, Eq)]
pub enum Ev {
    Data(usize),
    End,
    Err(String),
    Pending,
    Panic(String),
    /// A frame that is not a data frame (this crate never produces trailers).
    OtherFrame,
}

#[derive(Clone, Debug)]
pub struct Step {
    pub lower: u64,
    pub upper: Option<u64>,
    pub is_end: bool,
    /// bytes delivered before this poll
    pub before: u64,
    pub ev: Ev,
}

#[derive(Clone, Debug, PartialEq, Eq)]
pub enum Terminal {
    End,
    Err(String),
    Panic(String),
    /// stopped polling because the drain cap was reached
    Capped,
    /// too many consecutive Pending results
    Stuck,
}

#[derive(Clone, Debug)]
pub struct Drain {
    pub steps: Vec<Step>,
    /// collected data (complete unless `capped`)
    pub data: Vec<u8>,
    pub total: u64,
    pub terminal: Terminal,
    /// results of the extra polls after the terminal event
    pub post: Vec<Ev>,
    pub pendings: u64,
    pub wakes: u64,
    pub empty_frames: u64,
}

pub struct CountWaker(pub AtomicU64);
impl Wake for CountWaker {
    fn wake(self: Arc<Self>) {
        self.0.fetch_add(1, Ordering::SeqCst);
    }
    fn wake_by_ref(self: &Arc<Self>) {
        self.0.fetch_add(1, Ordering::SeqCst);
    }
}

pub fn poll_once<B>(body: &mut Pin<Box<B>>, cx: &mut Context<'_>) -> (Ev, Option<Vec<u8>>)
where
    B: HttpBody,
    B::Data: bytes::Buf,
    B::Error: std::fmt::Display,
{
    use bytes::Buf;
    match body.as_mut().poll_frame(cx) {
        Poll::Pending => (Ev::Pending, None),
        Poll::Ready(None) => (Ev::End, None),
        Poll::Ready(Some(Err(e))) => (Ev::Err(e.to_string()), None),
        Poll::Ready(Some(Ok(f))) => match f.into_data() {
            Ok(mut d) => {
                let mut v = Vec::with_capacity(d.remaining());
                while d.has_remaining() {
                    let c = d.chunk();
                    let n = c.len();
                    v.extend_from_slice(c);
                    d.advance(n);
                }
                (Ev::Data(v.len()), Some(v))
            }
            Err(_) => (Ev::OtherFrame, None),
        },
    }
}

/// Drains `body` (at most `cap` bytes are collected and then polling stops), then polls
/// `extra` more times after the first terminal event.
pub fn drain<B>(body: B, cap: u64, extra: usize) -> Drain
where
    B: HttpBody,
    B::Data: bytes::Buf,
    B::Error: std::fmt::Display,
{
    let cw = Arc::new(CountWaker(AtomicU64::new(0)));
    let waker = Waker::from(cw.clone());
    let mut cx = Context::from_waker(&waker);
    let mut d = Drain {
        steps: Vec::new(),
        data: Vec::new(),
        total: 0,
        terminal: Terminal::Stuck,
        post: Vec::new(),
        pendings: 0,
        wakes: 0,
        empty_frames: 0,
    };
    let mut body = Some(Box::pin(body));
    let r = crate::util::catch(|| {
        let b = body.as_mut().unwrap();
        let mut consecutive_pending = 0u32;
        let mut consecutive_empty = 0u32;
        loop {
            let h = b.size_hint();
            let is_end = b.is_end_stream();
            let before = d.total;
            let (ev, data) = poll_once(b, &mut cx);
            d.steps.push(Step {
                lower: h.lower(),
                upper: h.upper(),
                is_end,
                before,
                ev: ev.clone(),
            });
            match ev {
                Ev::Data(n) => {
                    consecutive_pending = 0;
                    if n != 0 {
                        consecutive_empty = 0;
                    }
                    if n == 0 {
                        d.empty_frames += 1;
                        consecutive_empty += 1;
                        if consecutive_empty > 20_000 {
                            // a body that yields empty frames forever: the harness's own budget
                            d.terminal = Terminal::Stuck;
                            return;
                        }
                    }
                    d.total += n as u64;
                    if let Some(v) = data {
                        d.data.extend_from_slice(&v);
                    }
                    if d.total >= cap {
                        d.terminal = Terminal::Capped;
                        return;
                    }
                }
                Ev::OtherFrame => {}
                Ev::Pending => {
                    d.pendings += 1;
                    consecutive_pending += 1;
                    if consecutive_pending > 5000 {
                        d.terminal = Terminal::Stuck;
                        return;
                    }
                }
                Ev::End => {
                    d.terminal = Terminal::End;
                    break;
                }
                Ev::Err(e) => {
                    d.terminal = Terminal::Err(e);
                    break;
                }
                Ev::Panic(_) => unreachable!(),
            }
        }
    });
    if let Err(p) = r {
        d.terminal = Terminal::Panic(p);
    }
    if matches!(d.terminal, Terminal::End | Terminal::Err(_)) {
        for _ in 0..extra {
            let r = crate::util::catch(|| {
                let b = body.as_mut().unwrap();
                let _ = b.size_hint();
                let _ = b.is_end_stream();
                poll_once(b, &mut cx)
            });
            match r {
                Ok((ev, _)) => d.post.push(ev),
                Err(p) => {
                    d.post.push(Ev::Panic(p));
                    break;
                }
            }
        }
    }
    d.wakes = cw.0.load(Ordering::SeqCst);
    // A body that panicked may be in a broken state (poisoned lock): running its destructors can
    // panic again, inside a destructor, which aborts the process. Leak it instead.
    if matches!(d.terminal, Terminal::Panic(_)) || d.post.iter().any(|e| matches!(e, Ev::Panic(_))) {
        std::mem::forget(body.take());
    } else {
        let _ = crate::util::catch(move || drop(body.take()));
    }
    d
}

impl Drain {
    pub fn summary(&self) -> Value {
        let mut frames: Vec<Value> = Vec::new();
        for s in self.steps.iter().take(24) {
            frames.push(json!({
                "hint": [s.lower, s.upper],
                "is_end": s.is_end,
                "ev": match &s.ev {
                    Ev::Data(n) => json!({"data": n}),
                    Ev::End => json!("end"),
                    Ev::Err(e) => json!({"err": e}),
                    Ev::Pending => json!("pending"),
                    Ev::Panic(p) => json!({"panic": p}),
                    Ev::OtherFrame => json!("other"),
                }
            }));
        }
        json!({
            "bytes": self.total,
            "polls": self.steps.len(),
            "first_steps": frames,
            "terminal": format!("{:?}", self.terminal),
            "post": self.post.iter().map(|e| format!("{:?}", e)).collect::<Vec<_>>(),
        })
    }
}
