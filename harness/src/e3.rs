//! Engine E3: a producer thread (BodyWriter program) and a consumer thread (poll loop) running
//! the real chunker code, (a) under a deterministic token-passing scheduler driven by the
//! instrumented mutex's events, (b) free-running with injected delays.
//!
//! Scheduling points (DESIGN 5/C10): producer - before each critical section and between an
//! unlock and what follows it (the `wake()`); consumer - before each critical section and at each
//! `Pending` (park or spurious re-poll). Never while the lock is held.
//!
//! Waker model (the `Future::poll` contract): only the waker presented in the most recent poll
//! is guaranteed to reach the task; waking an older one is recorded as stale and has no effect.

use crate::bodymon::{poll_once, Ev};
use crate::e2::{build, payload, Payload, SBody, SWriter, StreamCase};
use crate::util::Rng;
use http_body::Body as _;
use http_serve::verif_hooks::{set_thread_callback, LockEvent};
use serde_json::{json, Value};
use std::io::Write;
use std::pin::Pin;
use std::sync::atomic::{AtomicBool, AtomicU64, Ordering};
use std::sync::{Arc, Condvar, Mutex};
use std::task::{Context, Wake, Waker};

#[derive(Clone, Debug, PartialEq, Eq, Hash)]
pub enum POp {
    /// write_all of n bytes
    Write(u32),
    Flush,
    /// block until the consumer has nothing more to do (parked un-woken, or finished)
    Wait,
    Abort,
}

impl POp {
    pub fn to_json(&self) -> Value {
        match self {
            POp::Write(n) => json!({ "write_all": n }),
            POp::Flush => json!("flush"),
            POp::Wait => json!("wait_until_delivered"),
            POp::Abort => json!("abort"),
        }
    }
    pub fn from_json(v: &Value) -> POp {
        if let Some(n) = v.get("write_all") {
            return POp::Write(n.as_u64().unwrap_or(1) as u32);
        }
        match v.as_str().unwrap_or("") {
            "flush" => POp::Flush,
            "abort" => POp::Abort,
            _ => POp::Wait,
        }
    }
}

#[derive(Clone, Copy, Debug, PartialEq, Eq, Hash)]
pub enum WakerPolicy {
    Same,
    Fresh,
    Alternate,
}

#[derive(Clone, Debug, PartialEq, Eq, Hash)]
pub enum Mode {
    /// follow `prefix`, then always "keep running the current actor"
    Det,
    /// seeded random decisions (all recorded, so a run can be replayed in Det mode)
    Random(u64),
    /// free-running threads with injected delays (no token passing)
    Stress(u64),
}

#[derive(Clone, Debug, PartialEq, Eq, Hash)]
pub struct SchedCase {
    pub chunk: usize,
    pub gzip: Option<u32>,
    pub prog: Vec<POp>,
    pub policy: WakerPolicy,
    pub mode: Mode,
    pub prefix: Vec<u8>,
    /// max number of voluntary switches (u32::MAX = unbounded)
    pub preempt_bound: u32,
    pub spurious: u8,
    /// consumer drops the body after this many polls (C11)
    pub drop_body_after: Option<u32>,
    /// sample size_hint / is_end_stream before every poll (adds consumer critical sections)
    pub sample_hints: bool,
    pub extra_polls: u8,
    /// the writer is not dropped normally at the end of the program but by the unwinding of a
    /// panicking producer (`std::thread::panicking()` is true inside its destructor)
    pub drop_by_unwind: bool,
}

impl SchedCase {
    pub fn new(chunk: usize, gzip: Option<u32>, prog: Vec<POp>, policy: WakerPolicy) -> SchedCase {
        SchedCase { chunk, gzip, prog, policy, mode: Mode::Det, prefix: vec![], preempt_bound: u32::MAX, spurious: 2, drop_body_after: None, sample_hints: false, extra_polls: 1, drop_by_unwind: false }
    }
    pub fn to_json(&self) -> Value {
        json!({
            "chunk": self.chunk, "gzip": self.gzip,
            "prog": self.prog.iter().map(|p| p.to_json()).collect::<Vec<_>>(),
            "policy": match self.policy { WakerPolicy::Same => "same", WakerPolicy::Fresh => "fresh", WakerPolicy::Alternate => "alternate" },
            "mode": match &self.mode { Mode::Det => json!("det"), Mode::Random(s) => json!({"random": s}), Mode::Stress(s) => json!({"stress": s}) },
            "prefix": self.prefix.iter().map(|c| char::from(b'0' + *c)).collect::<String>(),
            "preempt_bound": self.preempt_bound, "spurious": self.spurious,
            "drop_body_after": self.drop_body_after, "sample_hints": self.sample_hints, "extra_polls": self.extra_polls, "drop_by_unwind": self.drop_by_unwind,
        })
    }
    pub fn from_json(v: &Value) -> SchedCase {
        SchedCase {
            chunk: v["chunk"].as_u64().unwrap_or(2) as usize,
            gzip: v["gzip"].as_u64().map(|x| x as u32),
            prog: v["prog"].as_array().map(|a| a.iter().map(POp::from_json).collect()).unwrap_or_default(),
            policy: match v["policy"].as_str().unwrap_or("same") {
                "fresh" => WakerPolicy::Fresh,
                "alternate" => WakerPolicy::Alternate,
                _ => WakerPolicy::Same,
            },
            mode: if let Some(s) = v["mode"].get("random") {
                Mode::Random(s.as_u64().unwrap_or(0))
            } else if let Some(s) = v["mode"].get("stress") {
                Mode::Stress(s.as_u64().unwrap_or(0))
            } else {
                Mode::Det
            },
            prefix: v["prefix"].as_str().unwrap_or("").bytes().map(|b| b - b'0').collect(),
            preempt_bound: v["preempt_bound"].as_u64().unwrap_or(u32::MAX as u64) as u32,
            spurious: v["spurious"].as_u64().unwrap_or(2) as u8,
            drop_body_after: v["drop_body_after"].as_u64().map(|x| x as u32),
            sample_hints: v["sample_hints"].as_bool().unwrap_or(false),
            extra_polls: v["extra_polls"].as_u64().unwrap_or(1) as u8,
            drop_by_unwind: v["drop_by_unwind"].as_bool().unwrap_or(false),
        }
    }
    fn stream_case(&self) -> StreamCase {
        match self.gzip {
            None => StreamCase::raw(self.chunk, vec![]),
            Some(l) => StreamCase::gzip(self.chunk, l, vec![]),
        }
    }
}

#[derive(Clone, Copy, PartialEq, Eq, Debug)]
enum Actor {
    Prod = 0,
    Cons = 1,
}
impl Actor {
    fn other(self) -> Actor {
        if self == Actor::Prod { Actor::Cons } else { Actor::Prod }
    }
}

#[derive(Clone, Copy, PartialEq, Eq, Debug)]
enum AState {
    Runnable,
    Parked,
    Waiting,
    Done,
}

#[derive(Clone, Debug)]
pub enum Ev3 {
    /// producer op returned: (op index, ok?)
    Op(usize, bool),
    /// the same with what the judge of C11 needs: the op began after the consumer had dropped the
    /// body; it had something to hand over (raw: completes a chunk / flushes buffered bytes; gzip: flush)
    OpDetail { i: usize, ok: bool, began_after_body_drop: bool, hands_over: bool },
    Drop,
    /// consumer poll: (waker id, hint lower, hint upper, is_end [when sampled], result, delivered before)
    Poll { waker: usize, hint: Option<(u64, Option<u64>, bool)>, ev: Ev, before: u64, prod_done_at_start: bool, abort_returned_at_start: bool, published_at_start: u64 },
    Wake(usize, bool),
    Park,
    Spurious,
    Switch(u8),
    BodyDropped,
}

struct St {
    turn: Actor,
    st: [AState; 2],
    prefix: Vec<u8>,
    pos: usize,
    decisions: Vec<(u8, u8)>,
    rng: Option<Rng>,
    preempt_left: u32,
    spurious_left: u8,
    aborted_run: bool,
    deadlock: Option<String>,
    lost_wakeup: Option<String>,
    cons_in_poll: bool,
    cur_waker: usize,
    woken: bool,
    events: Vec<Ev3>,
    // statistics
    parks: u64,
    wakes: u64,
    stale_wakes: u64,
    spurious_polls: u64,
    window_switches: u64,
    switches: u64,
    // producer-side model (raw): bytes accepted / published by ops that have returned
    accepted: u64,
    published: u64,
    prod_done: bool,
    abort_returned: bool,
    body_dropped: bool,
}

pub struct Sched {
    m: Mutex<St>,
    cv: Condvar,
    token: bool,
}

impl Sched {
    fn lock(&self) -> std::sync::MutexGuard<'_, St> {
        self.m.lock().unwrap_or_else(|p| p.into_inner())
    }

    fn next_choice(g: &mut St) -> u8 {
        if g.preempt_left == 0 {
            return 0;
        }
        let c = if let Some(r) = g.rng.as_mut() {
            (r.below(3) == 0) as u8
        } else {
            g.prefix.get(g.pos).copied().unwrap_or(0)
        };
        g.pos += 1;
        g.decisions.push((c, 2));
        if c == 1 && g.preempt_left != u32::MAX {
            g.preempt_left -= 1;
        }
        c
    }

    /// A point at which `me` may be descheduled in favour of the other actor.
    fn decision(&self, me: Actor, in_window: bool) {
        if !self.token {
            return;
        }
        let mut g = self.lock();
        if g.aborted_run || g.turn != me {
            return;
        }
        let other = me.other();
        let can = match g.st[other as usize] {
            AState::Runnable => true,
            AState::Parked => other == Actor::Cons && g.spurious_left > 0,
            _ => false,
        };
        if !can {
            return;
        }
        if Self::next_choice(&mut g) == 0 {
            return;
        }
        if g.st[other as usize] == AState::Parked {
            g.spurious_left -= 1;
            g.spurious_polls += 1;
            g.st[other as usize] = AState::Runnable;
            g.events.push(Ev3::Spurious);
        }
        g.switches += 1;
        if in_window {
            g.window_switches += 1;
        }
        g.events.push(Ev3::Switch(other as u8));
        g.turn = other;
        self.cv.notify_all();
        while g.turn != me && !g.aborted_run {
            g = self.cv.wait(g).unwrap_or_else(|p| p.into_inner());
        }
    }

    /// `me` cannot continue (parked, waiting, finished): hand the token on.
    fn block(&self, me: Actor, new_state: AState) {
        if !self.token {
            return;
        }
        let mut g = self.lock();
        g.st[me as usize] = new_state;
        loop {
            if g.aborted_run {
                return;
            }
            let p = g.st[Actor::Prod as usize];
            let c = g.st[Actor::Cons as usize];
            if g.turn == me && g.st[me as usize] == AState::Runnable {
                return;
            }
            if g.turn == me {
                // I hold the token but cannot run: pass it
                let other = me.other();
                if g.st[other as usize] == AState::Runnable {
                    g.turn = other;
                    self.cv.notify_all();
                } else if p == AState::Waiting && (c == AState::Parked || c == AState::Done) {
                    g.st[Actor::Prod as usize] = AState::Runnable;
                    g.turn = Actor::Prod;
                    self.cv.notify_all();
                    continue;
                } else if p == AState::Done && c == AState::Done {
                    self.cv.notify_all();
                    return;
                } else {
                    // nobody can run
                    g.deadlock = Some(format!("no actor runnable: producer {:?}, consumer {:?}", p, c));
                    g.aborted_run = true;
                    self.cv.notify_all();
                    return;
                }
            }
            if g.st[me as usize] == AState::Done {
                return;
            }
            g = self.cv.wait(g).unwrap_or_else(|p| p.into_inner());
        }
    }

    fn wait_turn(&self, me: Actor) {
        if !self.token {
            return;
        }
        let mut g = self.lock();
        while g.turn != me && !g.aborted_run {
            g = self.cv.wait(g).unwrap_or_else(|p| p.into_inner());
        }
    }
}

struct HWaker {
    id: usize,
    sched: Arc<Sched>,
    /// stress mode: the consumer thread to unpark, and its woken flag
    stress: Option<(std::thread::Thread, Arc<AtomicBool>)>,
}

impl Wake for HWaker {
    fn wake(self: Arc<Self>) {
        self.wake_by_ref();
    }
    fn wake_by_ref(self: &Arc<Self>) {
        let mut g = self.sched.lock();
        g.wakes += 1;
        let live = self.id == g.cur_waker;
        g.events.push(Ev3::Wake(self.id, live));
        if live {
            g.woken = true;
            if g.st[Actor::Cons as usize] == AState::Parked {
                g.st[Actor::Cons as usize] = AState::Runnable;
            }
        } else {
            g.stale_wakes += 1;
        }
        drop(g);
        if let Some((t, flag)) = &self.stress {
            if live {
                flag.store(true, Ordering::SeqCst);
                t.unpark();
            }
        }
    }
}

#[derive(Clone, Debug)]
pub struct SchedObs {
    pub events: Vec<Ev3>,
    pub decisions: Vec<(u8, u8)>,
    pub accepted: Vec<u8>,
    pub delivered: Vec<u8>,
    pub op_results: Vec<bool>,
    pub deadlock: Option<String>,
    pub lost_wakeup: Option<String>,
    pub panic: Option<String>,
    pub parks: u64,
    pub wakes: u64,
    pub stale_wakes: u64,
    pub spurious_polls: u64,
    pub window_switches: u64,
    pub switches: u64,
    pub terminal: Option<Ev>,
    pub post: Vec<Ev>,
    pub trace_hash: u64,
    pub content_encoding_gzip: bool,
}

impl SchedObs {
    pub fn to_json(&self) -> Value {
        json!({
            "events": self.events.iter().take(80).map(|e| format!("{:?}", e)).collect::<Vec<_>>(),
            "decisions": self.decisions.iter().map(|(c, _)| char::from(b'0' + *c)).collect::<String>(),
            "accepted": self.accepted.len(), "delivered": self.delivered.len(),
            "op_results": self.op_results,
            "deadlock": self.deadlock, "lost_wakeup": self.lost_wakeup, "panic": self.panic,
            "terminal": self.terminal.as_ref().map(|t| format!("{:?}", t)),
            "post": self.post.iter().map(|t| format!("{:?}", t)).collect::<Vec<_>>(),
        })
    }
}

type SharedBody = Arc<Mutex<Option<Pin<Box<SBody>>>>>;

/// A reusable actor thread. Creating and destroying two OS threads per schedule serialises all
/// harness workers on the kernel's address-space lock; each worker keeps one pair instead.
struct ActorThread {
    tx: Option<std::sync::mpsc::Sender<Box<dyn FnOnce() + Send>>>,
    done: std::sync::mpsc::Receiver<()>,
    thread: std::thread::Thread,
    handle: Option<std::thread::JoinHandle<()>>,
}

impl Drop for ActorThread {
    fn drop(&mut self) {
        drop(self.tx.take());
        if let Some(h) = self.handle.take() {
            let _ = h.join();
        }
    }
}

impl ActorThread {
    fn new() -> ActorThread {
        let (tx, rx) = std::sync::mpsc::channel::<Box<dyn FnOnce() + Send>>();
        let (dtx, done) = std::sync::mpsc::channel::<()>();
        let h = std::thread::spawn(move || {
            for job in rx {
                let _ = crate::util::catch(job);
                if dtx.send(()).is_err() {
                    break;
                }
            }
        });
        ActorThread { tx: Some(tx), done, thread: h.thread().clone(), handle: Some(h) }
    }
    fn run(&self, job: Box<dyn FnOnce() + Send>) {
        self.tx.as_ref().expect("sender present").send(job).expect("actor thread alive");
    }
    fn wait(&self) {
        let _ = self.done.recv();
    }
}

thread_local! {
    static POOL: std::cell::RefCell<Option<(ActorThread, ActorThread)>> = const { std::cell::RefCell::new(None) };
}

fn suppressed<R>(f: impl FnOnce() -> R) -> R {
    let old = set_thread_callback(None);
    let r = f();
    set_thread_callback(old);
    r
}

/// If the consumer sleeps un-woken, poll on its behalf with its own waker: a result other than
/// Pending means a wake-up was lost. Runs on the producer thread while it holds the token.
fn diagnose(sched: &Arc<Sched>, body: &SharedBody, when: &str) {
    if !sched.token {
        return;
    }
    let (parked, id) = {
        let g = sched.lock();
        (g.st[Actor::Cons as usize] == AState::Parked && !g.body_dropped && g.lost_wakeup.is_none() && !g.aborted_run, g.cur_waker)
    };
    if !parked {
        return;
    }
    let r = suppressed(|| {
        let mut b = body.lock().unwrap_or_else(|p| p.into_inner());
        match b.as_mut() {
            None => None,
            Some(b) => {
                // a waker that `will_wake` the consumer's registered one cannot be built from outside;
                // a no-op waker is used and, if the poll returns Pending, the consumer's registration
                // is restored by re-polling with its own waker id (see below)
                let w = Waker::from(Arc::new(HWaker { id, sched: sched.clone(), stress: None }));
                let mut cx = Context::from_waker(&w);
                Some(poll_once(b, &mut cx).0)
            }
        }
    });
    if let Some(ev) = r {
        if ev != Ev::Pending {
            let mut g = sched.lock();
            g.lost_wakeup = Some(format!("{}: consumer parked, waker {} not woken, yet a poll returns {:?}", when, id, ev));
            g.aborted_run = true;
            drop(g);
            sched.cv.notify_all();
        }
    }
}

pub fn run_sched(case: &SchedCase) -> Option<SchedObs> {
    POOL.with(|p| {
        let mut p = p.borrow_mut();
        let pool = p.get_or_insert_with(|| (ActorThread::new(), ActorThread::new()));
        run_sched_on(case, pool)
    })
}

fn run_sched_on(case: &SchedCase, pool: &(ActorThread, ActorThread)) -> Option<SchedObs> {
    let (resp, writer) = build(&case.stream_case())?;
    let writer = writer?;
    let gz = resp.headers().get("content-encoding").is_some_and(|v| v.as_bytes() == b"gzip");
    let (_, body) = resp.into_parts();
    let body: SharedBody = Arc::new(Mutex::new(Some(Box::pin(body))));
    let stress_seed = if let Mode::Stress(s) = case.mode { Some(s) } else { None };
    let sched = Arc::new(Sched {
        m: Mutex::new(St {
            turn: Actor::Prod,
            st: [AState::Runnable, AState::Runnable],
            prefix: case.prefix.clone(),
            pos: 0,
            decisions: Vec::new(),
            rng: if let Mode::Random(s) = case.mode { Some(Rng::new(s)) } else { None },
            preempt_left: case.preempt_bound,
            spurious_left: case.spurious,
            aborted_run: false,
            deadlock: None,
            lost_wakeup: None,
            cons_in_poll: false,
            cur_waker: usize::MAX,
            woken: false,
            events: Vec::new(),
            parks: 0,
            wakes: 0,
            stale_wakes: 0,
            spurious_polls: 0,
            window_switches: 0,
            switches: 0,
            accepted: 0,
            published: 0,
            prod_done: false,
            abort_returned: false,
            body_dropped: false,
        }),
        cv: Condvar::new(),
        token: stress_seed.is_none(),
    });
    let accepted_bytes = Arc::new(Mutex::new(Vec::<u8>::new()));
    let op_results = Arc::new(Mutex::new(Vec::<bool>::new()));
    let panic_slot = Arc::new(Mutex::new(None::<String>));
    let producer_finished = Arc::new(AtomicBool::new(false));
    let delay_ctr = Arc::new(AtomicU64::new(0));

    // ---------------------------------------------------------------- producer thread
    {
        let sched = sched.clone();
        let body = body.clone();
        let prog = case.prog.clone();
        let chunk = case.chunk as u64;
        let gzip = case.gzip.is_some();
        let drop_by_unwind = case.drop_by_unwind;
        let accepted_bytes = accepted_bytes.clone();
        let op_results = op_results.clone();
        let panic_slot = panic_slot.clone();
        let delay_ctr = delay_ctr.clone();
        pool.0.run(Box::new(move || {
            let s2 = sched.clone();
            let mut srng = stress_seed.map(|s| Rng::from_parts(s, &[1]));
            set_thread_callback(Some(Box::new(move |ev| match ev {
                LockEvent::BeforeLock => s2.decision(Actor::Prod, false),
                LockEvent::AfterUnlock => {
                    if let Some(r) = srng.as_mut() {
                        inject_delay(r, &delay_ctr);
                    }
                    s2.decision(Actor::Prod, true)
                }
                LockEvent::AfterLock => {}
            })));
            let mut w: Option<SWriter> = Some(writer);
            let mut buffered = 0u64;
            let r = crate::util::catch(|| {
                for (i, op) in prog.iter().enumerate() {
                    if sched.lock().aborted_run {
                        break;
                    }
                    let began_after_body_drop = sched.lock().body_dropped;
                    let hands_over = match op {
                        POp::Write(n) => !gzip && buffered + *n as u64 >= chunk,
                        POp::Flush => gzip || buffered > 0,
                        _ => false,
                    };
                    let ok = match op {
                        POp::Write(n) => {
                            let start = accepted_bytes.lock().unwrap().len() as u64;
                            let buf = payload(Payload::Hash, start, *n as usize);
                            let r = w.as_mut().map(|w| w.write_all(&buf));
                            let ok = matches!(r, Some(Ok(())));
                            if ok {
                                accepted_bytes.lock().unwrap().extend_from_slice(&buf);
                                let mut g = sched.lock();
                                g.accepted += *n as u64;
                                if !gzip {
                                    let tot = buffered + *n as u64;
                                    if tot >= chunk {
                                        g.published = g.accepted - tot % chunk;
                                    }
                                    buffered = tot % chunk;
                                }
                            }
                            ok
                        }
                        POp::Flush => {
                            let r = w.as_mut().map(|w| w.flush());
                            let ok = matches!(r, Some(Ok(())));
                            if ok && !gzip {
                                let mut g = sched.lock();
                                g.published = g.accepted;
                                buffered = 0;
                            }
                            ok
                        }
                        POp::Abort => {
                            if let Some(w) = w.as_mut() {
                                w.abort("aborted by harness".into());
                            }
                            sched.lock().abort_returned = true;
                            true
                        }
                        POp::Wait => {
                            sched.block(Actor::Prod, AState::Waiting);
                            true
                        }
                    };
                    op_results.lock().unwrap().push(ok);
                    {
                        let mut g = sched.lock();
                        g.events.push(Ev3::Op(i, ok));
                        g.events.push(Ev3::OpDetail { i, ok, began_after_body_drop, hands_over });
                    }
                    diagnose(&sched, &body, &format!("after op {} ({:?}) returned", i, op));
                }
                if drop_by_unwind {
                    // the producer "task" panics while it owns the writer: the destructor runs
                    // during unwinding (resume_unwind: no panic hook, no message)
                    if let Some(ww) = w.take() {
                        let _ = std::panic::catch_unwind(std::panic::AssertUnwindSafe(move || {
                            let _owned = ww;
                            std::panic::resume_unwind(Box::new("producer task panicked (harness)"));
                        }));
                    }
                } else {
                    drop(w.take());
                }
                {
                    let mut g = sched.lock();
                    g.prod_done = true;
                    if !gzip && !g.abort_returned {
                        g.published = g.accepted;
                    }
                    g.events.push(Ev3::Drop);
                }
                diagnose(&sched, &body, "after the writer was dropped");
            });
            if let Err(p) = r {
                *panic_slot.lock().unwrap() = Some(format!("producer: {}", p));
                let mut g = sched.lock();
                g.aborted_run = true;
                drop(g);
                sched.cv.notify_all();
                std::mem::forget(w.take()); // its destructor may panic again (poisoned lock) and abort
            }
            set_thread_callback(None);
            sched.block(Actor::Prod, AState::Done);
        }));
    }

    // ---------------------------------------------------------------- consumer thread
    let delivered = Arc::new(Mutex::new(Vec::<u8>::new()));
    let terminal = Arc::new(Mutex::new((None::<Ev>, Vec::<Ev>::new())));
    {
        let sched = sched.clone();
        let body = body.clone();
        let case = case.clone();
        let delivered = delivered.clone();
        let terminal = terminal.clone();
        let panic_slot = panic_slot.clone();
        let producer_finished = producer_finished.clone();
        pool.1.run(Box::new(move || {
            let s2 = sched.clone();
            set_thread_callback(Some(Box::new(move |ev| {
                if ev == LockEvent::BeforeLock {
                    s2.decision(Actor::Cons, false)
                }
            })));
            sched.wait_turn(Actor::Cons);
            let woken_flag = Arc::new(AtomicBool::new(false));
            let me = std::thread::current();
            let mut polls = 0u32;
            let mut next_id = 0usize;
            let mut same: Option<Waker> = None;
            let mut alt: [Option<Waker>; 2] = [None, None];
            let r = crate::util::catch(|| loop {
                if sched.lock().aborted_run {
                    break;
                }
                if case.drop_body_after == Some(polls) {
                    drop(body.lock().unwrap_or_else(|p| p.into_inner()).take());
                    let mut g = sched.lock();
                    g.body_dropped = true;
                    g.events.push(Ev3::BodyDropped);
                    break;
                }
                // choose the waker for this poll
                let mk = |id: usize| Waker::from(Arc::new(HWaker { id, sched: sched.clone(), stress: if sched.token { None } else { Some((me.clone(), woken_flag.clone())) } }));
                let (id, waker) = match case.policy {
                    WakerPolicy::Same => (0, same.get_or_insert_with(|| mk(0)).clone()),
                    WakerPolicy::Fresh => {
                        next_id += 1;
                        (next_id, mk(next_id))
                    }
                    WakerPolicy::Alternate => {
                        let k = polls as usize % 2;
                        (k, alt[k].get_or_insert_with(|| mk(k)).clone())
                    }
                };
                let (prod_done_at_start, abort_at_start, published_at_start) = {
                    let mut g = sched.lock();
                    g.cur_waker = id;
                    g.woken = false;
                    g.cons_in_poll = true;
                    (g.prod_done, g.abort_returned, g.published)
                };
                let before = delivered.lock().unwrap().len() as u64;
                let mut cx = Context::from_waker(&waker);
                let (hint, ev, data) = {
                    let mut b = body.lock().unwrap_or_else(|p| p.into_inner());
                    let b = b.as_mut().unwrap();
                    let hint = if case.sample_hints {
                        let h = b.size_hint();
                        Some((h.lower(), h.upper(), b.is_end_stream()))
                    } else {
                        None
                    };
                    let (ev, data) = poll_once(b, &mut cx);
                    (hint, ev, data)
                };
                polls += 1;
                if let Some(d) = data {
                    delivered.lock().unwrap().extend_from_slice(&d);
                }
                {
                    let mut g = sched.lock();
                    g.cons_in_poll = false;
                    g.events.push(Ev3::Poll { waker: id, hint, ev: ev.clone(), before, prod_done_at_start, abort_returned_at_start: abort_at_start, published_at_start });
                }
                match ev {
                    Ev::Data(_) | Ev::OtherFrame => continue,
                    Ev::End | Ev::Err(_) => {
                        let mut t = terminal.lock().unwrap();
                        if t.0.is_none() {
                            t.0 = Some(ev);
                            drop(t);
                            // polls after the terminal event (C20)
                            for _ in 0..case.extra_polls {
                                let mut b = body.lock().unwrap_or_else(|p| p.into_inner());
                                let (ev, _) = poll_once(b.as_mut().unwrap(), &mut cx);
                                terminal.lock().unwrap().1.push(ev);
                            }
                        }
                        break;
                    }
                    Ev::Panic(_) => break,
                    Ev::Pending => {
                        if sched.token {
                            let mut g = sched.lock();
                            g.parks += 1;
                            if g.spurious_left > 0 {
                                // 0 = poll again spuriously right away, 1 = park
                                if Sched::next_choice(&mut g) == 0 {
                                    g.spurious_left -= 1;
                                    g.spurious_polls += 1;
                                    g.events.push(Ev3::Spurious);
                                    continue;
                                }
                            }
                            if g.woken {
                                continue; // woken between the poll and now: runnable again
                            }
                            g.events.push(Ev3::Park);
                            drop(g);
                            sched.block(Actor::Cons, AState::Parked);
                        } else {
                            // free-running: really park until the live waker fires, or until the
                            // producer is gone (then diagnose instead of sleeping forever)
                            sched.lock().parks += 1;
                            loop {
                                if woken_flag.swap(false, Ordering::SeqCst) {
                                    break;
                                }
                                if producer_finished.load(Ordering::SeqCst) {
                                    // every wake the producer will ever issue has been issued by
                                    // now; one may have landed between the flag check above and
                                    // this one, so the flag is read again before concluding
                                    if woken_flag.swap(false, Ordering::SeqCst) {
                                        break;
                                    }
                                    let (ev, _) = {
                                        let mut b = body.lock().unwrap_or_else(|p| p.into_inner());
                                        poll_once(b.as_mut().unwrap(), &mut cx)
                                    };
                                    let mut g = sched.lock();
                                    if ev == Ev::Pending {
                                        g.deadlock = Some("stress: writer gone, consumer not woken, poll still Pending".into());
                                    } else {
                                        g.lost_wakeup = Some(format!("stress: producer finished, consumer parked and its waker never woken, yet a poll returns {:?}", ev));
                                    }
                                    g.aborted_run = true;
                                    return;
                                }
                                std::thread::park();
                            }
                        }
                    }
                }
            });
            if let Err(p) = r {
                *panic_slot.lock().unwrap() = Some(format!("consumer: {}", p));
                let mut g = sched.lock();
                g.aborted_run = true;
                drop(g);
                sched.cv.notify_all();
            }
            set_thread_callback(None);
            sched.block(Actor::Cons, AState::Done);
        }));
    }
    pool.0.wait();
    producer_finished.store(true, Ordering::SeqCst);
    pool.1.thread.unpark();
    pool.1.wait();
    if panic_slot.lock().unwrap().is_some() {
        std::mem::forget(body.lock().unwrap_or_else(|p| p.into_inner()).take());
    } else {
        let _ = crate::util::catch(|| drop(body.lock().unwrap_or_else(|p| p.into_inner()).take()));
    }

    let g = sched.lock();
    let mut h = crate::util::Fnv(0xcbf2_9ce4_8422_2325);
    use std::hash::Hasher;
    for e in &g.events {
        h.write(format!("{:?}", e).as_bytes());
    }
    let t = terminal.lock().unwrap().clone();
    let accepted = accepted_bytes.lock().unwrap().clone();
    let delivered = delivered.lock().unwrap().clone();
    let op_results = op_results.lock().unwrap().clone();
    let panic = panic_slot.lock().unwrap().clone();
    Some(SchedObs {
        events: g.events.clone(),
        decisions: g.decisions.clone(),
        accepted,
        delivered,
        op_results,
        deadlock: g.deadlock.clone(),
        lost_wakeup: g.lost_wakeup.clone(),
        panic,
        parks: g.parks,
        wakes: g.wakes,
        stale_wakes: g.stale_wakes,
        spurious_polls: g.spurious_polls,
        window_switches: g.window_switches,
        switches: g.switches,
        terminal: t.0,
        post: t.1,
        trace_hash: h.finish(),
        content_encoding_gzip: gz,
    })
}

fn inject_delay(r: &mut Rng, ctr: &AtomicU64) {
    ctr.fetch_add(1, Ordering::Relaxed);
    match r.below(8) {
        0..=2 => {}
        3 | 4 => std::thread::yield_now(),
        5 => {
            for _ in 0..r.below(200) {
                std::hint::spin_loop();
            }
        }
        _ => std::thread::sleep(std::time::Duration::from_micros(r.below(50))),
    }
}

/// The schedule that follows `decisions` in depth-first order, if any.
pub fn next_prefix(decisions: &[(u8, u8)]) -> Option<Vec<u8>> {
    let mut i = decisions.len();
    while i > 0 {
        i -= 1;
        let (c, n) = decisions[i];
        if c + 1 < n {
            let mut p: Vec<u8> = decisions[..i].iter().map(|d| d.0).collect();
            p.push(c + 1);
            return Some(p);
        }
    }
    None
}

// ====================================================================== hint-spin trials ====
//
// Free-running: one thread does nothing but ask the body for `is_end_stream()` / `size_hint()`
// (as hyper does around every poll) while another thread ends the stream (drop with an
// unflushed tail, or abort) at an arbitrary instant. The samples are judged afterwards against
// what the body then delivered. No scheduler hooks are involved: the window of interest may
// contain no lock event at all.

#[derive(Clone, Debug, PartialEq, Eq, Hash)]
pub struct SpinCase {
    pub chunk: usize,
    pub gzip: Option<u32>,
    /// bytes written and flushed (and drained by the consumer) before the race
    pub pre: u32,
    /// bytes written and left unflushed when the writer ends
    pub tail: u32,
    /// the writer ends with abort instead of a plain drop
    pub abort: bool,
    /// spin iterations of the producer between the start signal and the end of the writer
    pub delay: u32,
}

impl SpinCase {
    pub fn to_json(&self) -> Value {
        json!({"spin": true, "chunk": self.chunk, "gzip_level": self.gzip, "pre": self.pre, "tail": self.tail, "abort": self.abort, "delay": self.delay})
    }
    pub fn from_json(v: &Value) -> SpinCase {
        SpinCase {
            chunk: v["chunk"].as_u64().unwrap_or(4096) as usize,
            gzip: v["gzip_level"].as_u64().map(|x| x as u32),
            pre: v["pre"].as_u64().unwrap_or(0) as u32,
            tail: v["tail"].as_u64().unwrap_or(1) as u32,
            abort: v["abort"].as_bool().unwrap_or(false),
            delay: v["delay"].as_u64().unwrap_or(0) as u32,
        }
    }
}

#[derive(Clone, Debug, Default)]
pub struct SpinObs {
    /// distinct consecutive samples: (lower, upper, is_end_stream, bytes delivered when sampled)
    pub samples: Vec<(u64, Option<u64>, bool, u64)>,
    pub n_samples: u64,
    /// samples taken while the producer was inside its final operation (between its two marks)
    pub samples_during_end: u64,
    pub delivered: u64,
    pub terminal: Option<Ev>,
    /// what the body produced after the first `is_end_stream() == true`
    pub after_end_flag: Vec<Ev>,
    pub panic: Option<String>,
}

impl SpinObs {
    pub fn to_json(&self) -> Value {
        json!({
            "distinct_consecutive_samples": self.samples.iter().take(40).map(|(l, u, e, d)| json!([l, u, e, d])).collect::<Vec<_>>(),
            "n_samples": self.n_samples,
            "samples_during_end": self.samples_during_end,
            "delivered": self.delivered,
            "terminal": self.terminal.as_ref().map(|t| format!("{:?}", t)),
            "after_end_flag": self.after_end_flag.iter().map(|t| format!("{:?}", t)).collect::<Vec<_>>(),
            "panic": self.panic,
        })
    }
}

pub fn run_spin(case: &SpinCase) -> Option<SpinObs> {
    POOL.with(|p| {
        let mut p = p.borrow_mut();
        let pool = p.get_or_insert_with(|| (ActorThread::new(), ActorThread::new()));
        run_spin_on(case, pool)
    })
}

fn run_spin_on(case: &SpinCase, pool: &(ActorThread, ActorThread)) -> Option<SpinObs> {
    let sc = match case.gzip {
        None => StreamCase::raw(case.chunk, vec![]),
        Some(l) => StreamCase::gzip(case.chunk, l, vec![]),
    };
    let (resp, writer) = build(&sc)?;
    let mut writer = writer?;
    let (_, body) = resp.into_parts();
    let mut body = Box::pin(body);
    // phase: 0 = producer preparing, 1 = prepared, 2 = go, 3 = ending, 4 = ended
    let phase = Arc::new(AtomicU64::new(0));
    let panic_slot = Arc::new(Mutex::new(None::<String>));
    {
        let phase = phase.clone();
        let case = case.clone();
        let panic_slot = panic_slot.clone();
        pool.0.run(Box::new(move || {
            set_thread_callback(None);
            let r = crate::util::catch(|| {
                if case.pre > 0 {
                    let _ = writer.write_all(&payload(Payload::Hash, 0, case.pre as usize));
                    let _ = writer.flush();
                }
                if case.tail > 0 {
                    let _ = writer.write_all(&payload(Payload::Hash, case.pre as u64, case.tail as usize));
                }
                phase.store(1, Ordering::SeqCst);
                while phase.load(Ordering::SeqCst) < 2 {
                    std::hint::spin_loop();
                }
                for _ in 0..case.delay {
                    std::hint::spin_loop();
                }
                phase.store(3, Ordering::SeqCst);
                if case.abort {
                    writer.abort("aborted by harness".into());
                }
                drop(writer);
                phase.store(4, Ordering::SeqCst);
            });
            if let Err(p) = r {
                *panic_slot.lock().unwrap() = Some(format!("producer: {}", p));
                phase.store(4, Ordering::SeqCst);
            }
        }));
    }
    let mut obs = SpinObs::default();
    let r = crate::util::catch(|| {
        let w = Waker::from(Arc::new(crate::bodymon::CountWaker(AtomicU64::new(0))));
        let mut cx = Context::from_waker(&w);
        while phase.load(Ordering::SeqCst) < 1 {
            std::hint::spin_loop();
        }
        // drain what was flushed so that the queue is empty when the race starts
        loop {
            let (ev, data) = poll_once(&mut body, &mut cx);
            if let Some(d) = data {
                obs.delivered += d.len() as u64;
            }
            if !matches!(ev, Ev::Data(_) | Ev::OtherFrame) {
                if matches!(ev, Ev::End | Ev::Err(_)) {
                    obs.terminal = Some(ev);
                }
                break;
            }
        }
        phase.store(2, Ordering::SeqCst);
        let mut said_end = false;
        let mut after = 0u32;
        while obs.terminal.is_none() {
            let ph = phase.load(Ordering::Relaxed);
            let e = body.is_end_stream();
            let h = body.size_hint();
            obs.n_samples += 1;
            if ph == 3 {
                obs.samples_during_end += 1;
            }
            let s = (h.lower(), h.upper(), e, obs.delivered);
            if obs.samples.last() != Some(&s) && obs.samples.len() < 10_000 {
                obs.samples.push(s);
            }
            if e {
                said_end = true;
            }
            if said_end || ph == 4 {
                if ph == 4 {
                    after += 1;
                }
                if said_end || after > 3 {
                    break;
                }
            }
        }
        // drain to the terminal event
        let mut pendings = 0u64;
        while obs.terminal.is_none() {
            let (ev, data) = poll_once(&mut body, &mut cx);
            if let Some(d) = &data {
                obs.delivered += d.len() as u64;
            }
            if said_end {
                obs.after_end_flag.push(ev.clone());
            }
            match ev {
                Ev::End | Ev::Err(_) | Ev::Panic(_) => obs.terminal = Some(ev),
                Ev::Pending => {
                    pendings += 1;
                    if phase.load(Ordering::SeqCst) == 4 && pendings > 1_000_000 {
                        break; // a progress problem; not this monitor's subject
                    }
                    std::hint::spin_loop();
                }
                _ => {}
            }
        }
    });
    pool.0.wait();
    if let Err(p) = r {
        obs.panic = Some(format!("consumer: {}", p));
        std::mem::forget(body);
    } else if panic_slot.lock().unwrap().is_some() {
        obs.panic = panic_slot.lock().unwrap().clone();
        std::mem::forget(body);
    }
    Some(obs)
}
