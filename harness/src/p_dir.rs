//! C19: `FsDir::get` on a purpose-built tree, against an in-memory POSIX relative-path resolver.

use crate::driver::{Ctx, Prop, Sink, Tier, Verdict};
use crate::p_file::TempDir;
use crate::util::{bytes_from_json, bytes_to_json, hash64, norm_loc, show};
use http_serve::dir::FsDir;
use serde_json::{json, Value};
use std::collections::BTreeMap;
use std::os::unix::fs::MetadataExt;
use std::path::Path;
use std::sync::{Arc, OnceLock, RwLock};

pub fn register(v: &mut Vec<Box<dyn Prop>>) {
    v.push(Box::new(C19));
}

static RT: crate::util::LazyRt = crate::util::LazyRt::new(2);

/// Exclusive side is taken by the descriptor-leak block.
static FD_LOCK: RwLock<()> = RwLock::new(());

#[derive(Clone, Debug)]
enum Node {
    File { id: (u64, u64) },
    Dir { id: (u64, u64), entries: BTreeMap<String, Node> },
}

impl Node {
    fn id(&self) -> (u64, u64) {
        match self {
            Node::File { id } | Node::Dir { id, .. } => *id,
        }
    }
}

const ENOENT: i32 = 2;
const ENOTDIR: i32 = 20;
const ENAMETOOLONG: i32 = 36;

/// What `openat(base, p, O_RDONLY)` yields for a literal relative path without `..` segments.
fn resolve<'a>(root: &'a Node, p: &str) -> Result<&'a Node, i32> {
    if p.is_empty() {
        return Err(ENOENT);
    }
    let mut cur = root;
    for seg in p.split('/') {
        let entries = match cur {
            Node::Dir { entries, .. } => entries,
            Node::File { .. } => return Err(ENOTDIR),
        };
        if seg.is_empty() || seg == "." {
            continue;
        }
        if seg.len() > 255 {
            return Err(ENAMETOOLONG);
        }
        match entries.get(seg) {
            None => return Err(ENOENT),
            Some(n) => cur = n,
        }
    }
    // a trailing slash or "." after a file was caught at the top of the loop only if another
    // segment followed; check it here
    if matches!(cur, Node::File { .. }) && (p.ends_with('/') || p.ends_with("/.")) {
        return Err(ENOTDIR);
    }
    Ok(cur)
}

struct Tree {
    _tmp: TempDir,
    base: std::path::PathBuf,
    root: Node,
    secret: (u64, u64),
}

fn id_of(p: &Path) -> (u64, u64) {
    let m = std::fs::metadata(p).expect("stat");
    (m.dev(), m.ino())
}

fn build_tree() -> Tree {
    let tmp = TempDir::new("c19");
    let base = tmp.0.join("base");
    std::fs::create_dir(&base).unwrap();
    let mk_file = |p: &Path| {
        std::fs::write(p, p.to_string_lossy().as_bytes()).unwrap();
        Node::File { id: id_of(p) }
    };
    std::fs::write(tmp.0.join("secret"), b"secret").unwrap();
    let secret = id_of(&tmp.0.join("secret"));
    let mut top: BTreeMap<String, Node> = BTreeMap::new();
    for name in ["a", "a.gz", "a.gz.gz", "b", "b.gz.gz", "c", "d.gz", "...", "..a", "a..", "....gz", ".gz", "f.tar", "f.tar.gz", "f.tar.gz.gz"] {
        top.insert(name.into(), mk_file(&base.join(name)));
    }
    // a ".gz" that is a directory
    std::fs::create_dir(base.join("c.gz")).unwrap();
    top.insert("c.gz".into(), Node::Dir { id: id_of(&base.join("c.gz")), entries: BTreeMap::new() });
    // nested directory
    let sub = base.join("sub");
    std::fs::create_dir(&sub).unwrap();
    let mut se: BTreeMap<String, Node> = BTreeMap::new();
    for name in ["a", "a.gz", "...", "..a", "a..", "secret"] {
        se.insert(name.into(), mk_file(&sub.join(name)));
    }
    std::fs::create_dir(sub.join("sub")).unwrap();
    let mut sse: BTreeMap<String, Node> = BTreeMap::new();
    sse.insert("a".into(), mk_file(&sub.join("sub").join("a")));
    se.insert("sub".into(), Node::Dir { id: id_of(&sub.join("sub")), entries: sse });
    top.insert("sub".into(), Node::Dir { id: id_of(&sub), entries: se });
    // a directory that has a .gz sibling *file*
    std::fs::create_dir(base.join("e")).unwrap();
    top.insert("e".into(), Node::Dir { id: id_of(&base.join("e")), entries: BTreeMap::new() });
    top.insert("e.gz".into(), mk_file(&base.join("e.gz")));
    // a .gz sibling that exists, is not a directory and is not a regular file either (a character
    // device reached through a symlink; `Node::File` means "not a directory" in the model)
    top.insert("g".into(), mk_file(&base.join("g")));
    std::os::unix::fs::symlink("/dev/null", base.join("g.gz")).unwrap();
    top.insert("g.gz".into(), Node::File { id: id_of(&base.join("g.gz")) });
    // an empty .gz sibling
    top.insert("h".into(), mk_file(&base.join("h")));
    std::fs::write(base.join("h.gz"), b"").unwrap();
    top.insert("h.gz".into(), Node::File { id: id_of(&base.join("h.gz")) });
    // names at the limit of what a directory entry can hold: up to 252 bytes a `.gz` sibling
    // fits (and exists here), from 253 on it cannot exist, so nothing can be substituted
    for dir in [None, Some("sub")] {
        for n in LONG_NAME_LENS {
            let name = long_name(n);
            let d = match dir { None => base.clone(), Some(x) => base.join(x) };
            let entries = match dir {
                None => &mut top,
                Some(x) => match top.get_mut(x) { Some(Node::Dir { entries, .. }) => entries, _ => unreachable!() },
            };
            entries.insert(name.clone(), mk_file(&d.join(&name)));
            if n + 3 <= 255 {
                let gz = format!("{}.gz", name);
                entries.insert(gz.clone(), mk_file(&d.join(&gz)));
            }
        }
    }
    // modification times: siblings older and newer than their originals, by seconds and by years
    // (substitution does not depend on them)
    let now = std::time::SystemTime::now();
    let ago = |s: u64| now - std::time::Duration::from_secs(s);
    for (name, t) in [("a.gz", ago(86_400 * 400)), ("a", ago(5)), ("b.gz.gz", ago(3)), ("sub/a.gz", ago(100)), ("f.tar.gz", ago(2)), ("f.tar", ago(86_400)), ("h.gz", ago(7_000))] {
        let _ = std::fs::File::options().write(true).open(base.join(name)).and_then(|f| f.set_modified(t));
    }
    let root = Node::Dir { id: id_of(&base), entries: top };
    Tree { _tmp: tmp, base, root, secret }
}

const LONG_NAME_LENS: [usize; 6] = [200, 251, 252, 253, 254, 255];

fn long_name(n: usize) -> String {
    let mut s = format!("long{}-", n);
    while s.len() < n {
        s.push((b'a' + (s.len() % 26) as u8) as char);
    }
    s
}

fn tree() -> &'static Tree {
    static T: OnceLock<Tree> = OnceLock::new();
    T.get_or_init(|| {
        let t = build_tree();
        crate::util::register_cleanup(t.base.parent().unwrap().to_path_buf());
        t
    })
}

#[derive(Clone, Debug, PartialEq, Eq, Hash)]
pub struct DirCase {
    pub path: Vec<u8>,
    pub accept_encoding: Option<Vec<u8>>,
    pub auto_gzip: bool,
}

fn is_rejected_class(p: &[u8]) -> Option<&'static str> {
    if p.contains(&0) {
        return Some("nul");
    }
    if p.first() == Some(&b'/') {
        return Some("absolute");
    }
    if p.split(|c| *c == b'/').any(|s| s == b"..") {
        return Some("dotdot");
    }
    None
}

fn dirs() -> &'static (Arc<FsDir>, Arc<FsDir>) {
    static D: OnceLock<(Arc<FsDir>, Arc<FsDir>)> = OnceLock::new();
    D.get_or_init(|| {
        let t = tree();
        (FsDir::builder().auto_gzip(true).for_path(&t.base).expect("FsDir on"), FsDir::builder().auto_gzip(false).for_path(&t.base).expect("FsDir off"))
    })
}

fn run_dir(c: &DirCase, sink: &mut Sink) -> (Verdict, Option<u64>, Value) {
    let desc = json!({"path": bytes_to_json(&c.path), "accept_encoding": c.accept_encoding.as_ref().map(|v| bytes_to_json(v)), "auto_gzip": c.auto_gzip});
    let t = tree();
    let path = match std::str::from_utf8(&c.path) {
        Ok(s) => s.to_string(),
        Err(_) => return (Verdict::DontCare("not a str".into()), None, desc),
    };
    let mut hdrs = http::HeaderMap::new();
    if let Some(ae) = &c.accept_encoding {
        match http::HeaderValue::from_bytes(ae) {
            Ok(v) => {
                hdrs.insert(http::header::ACCEPT_ENCODING, v);
            }
            Err(_) => return (Verdict::DontCare("inexpressible header".into()), None, desc),
        }
    }
    let by = crate::util::add_bystanders(&mut hdrs, crate::util::hash64(&(&c.path, &c.accept_encoding, c.auto_gzip)));
    let mut desc = desc;
    desc["other_request_headers"] = json!(by);
    if !by.is_empty() {
        sink.count("cases_with_other_request_headers");
    }
    if by.contains(&"range") && by.contains(&"if-range") {
        sink.count("cases_with_range_and_if_range");
    }
    let d = if c.auto_gzip { dirs().0.clone() } else { dirs().1.clone() };
    let h2 = hdrs.clone();
    let p2 = path.clone();
    let r = crate::util::catch(|| RT.with(|rt| rt.block_on(async move { d.get(&p2, &h2).await })));
    let r = match r {
        Err(p) => return (Verdict::viol(format!("panic@{}", norm_loc(&p)), format!("FsDir::get({:?}) panicked: {}", show(&c.path), p)), None, desc),
        Ok(r) => r,
    };
    let observed = match &r {
        Ok(n) => json!({"ok": {"dev": n.metadata().dev(), "ino": n.metadata().ino(), "encoding": n.encoding()}}),
        Err(e) => json!({"err": format!("{:?} {:?}", e.kind(), e.raw_os_error())}),
    };
    let desc = json!({"case": desc, "observed": observed});
    if let Some(class) = is_rejected_class(&c.path) {
        return match r {
            Err(_) => {
                sink.count(&format!("rejected_{}", class));
                (Verdict::Ok, Some(hash64(c)), desc)
            }
            Ok(n) => {
                let id = (n.metadata().dev(), n.metadata().ino());
                let outside = if id == t.secret { "|opened-secret-outside-base" } else { "" };
                (Verdict::viol(format!("hostile-path-accepted|{}{}", class, outside), format!("get({:?}) returned a node (dev,ino)={:?}", show(&c.path), id)), None, desc)
            }
        };
    }
    // model
    let want_gzip_lookup = c.auto_gzip && http_serve::should_gzip(&hdrs);
    let mut expected: Result<(&Node, bool), i32> = resolve(&t.root, &path).map(|n| (n, false));
    if want_gzip_lookup {
        let sib = format!("{}.gz", path);
        if let Ok(n) = resolve(&t.root, &sib) {
            if matches!(n, Node::File { .. }) {
                expected = Ok((n, true));
            }
        }
    }
    match (&r, &expected) {
        (Ok(n), Ok((want, gz))) => {
            let id = (n.metadata().dev(), n.metadata().ino());
            if id != want.id() {
                let what = if id == t.secret { "secret-outside-base" } else if *gz { "expected-gz-sibling" } else { "expected-plain" };
                return (Verdict::viol(format!("wrong-file|{}", what), format!("get({:?}, gzip lookup {}) opened (dev,ino)={:?}, the path names {:?}", show(&c.path), want_gzip_lookup, id, want.id())), None, desc);
            }
            if (n.encoding() == Some("gzip")) != *gz || (n.encoding().is_some() && n.encoding() != Some("gzip")) {
                return (Verdict::viol(format!("encoding|want-gzip={}", gz), format!("encoding() = {:?}, gz sibling used = {}", n.encoding(), gz)), None, desc);
            }
            let mut out = http::HeaderMap::new();
            n.add_encoding_headers(&mut out);
            let ce = out.get("content-encoding").map(|v| v.as_bytes().to_vec());
            if (ce.as_deref() == Some(b"gzip")) != *gz || (ce.is_some() && !*gz) {
                return (Verdict::viol(format!("content-encoding-header|want-gzip={}", gz), format!("add_encoding_headers wrote Content-Encoding {:?}, gz sibling used = {}", ce.as_deref().map(show), gz)), None, desc);
            }
            let vary = out.get_all("vary").iter().any(|v| std::str::from_utf8(v.as_bytes()).unwrap_or("").split(',').any(|t| t.trim().eq_ignore_ascii_case("accept-encoding")));
            if vary != c.auto_gzip {
                return (Verdict::viol(format!("vary|auto_gzip={}", c.auto_gzip), format!("Vary: accept-encoding present = {}, auto_gzip = {}", vary, c.auto_gzip)), None, desc);
            }
            if n.encoding_varies() != c.auto_gzip {
                return (Verdict::viol(format!("encoding-varies|auto_gzip={}", c.auto_gzip), "encoding_varies() disagrees with auto_gzip"), None, desc);
            }
            sink.count(if *gz { "opened_gz_sibling" } else if matches!(want, Node::Dir { .. }) { "opened_directory" } else { "opened_plain" });
            if want_gzip_lookup && !*gz {
                sink.count("gzip_wanted_but_no_usable_sibling");
            }
        }
        (Err(e), Err(errno)) => {
            // "fails the way opening that file fails": same errno, or (if the implementation builds
            // its own io::Error) the same error kind
            let kind_matches = match *errno {
                ENOENT => e.kind() == std::io::ErrorKind::NotFound,
                ENOTDIR => e.kind() == std::io::ErrorKind::NotADirectory,
                ENAMETOOLONG => e.kind() == std::io::ErrorKind::InvalidFilename,
                _ => false,
            };
            if e.raw_os_error() != Some(*errno) && !kind_matches {
                return (Verdict::viol(format!("wrong-error|want={}", errno), format!("get({:?}) failed with {:?}, opening that path fails with errno {}", show(&c.path), e, errno)), None, desc);
            }
            sink.count(match *errno { ENOENT => "failed_enoent", ENOTDIR => "failed_enotdir", _ => "failed_enametoolong" });
        }
        (Ok(n), Err(errno)) => {
            let id = (n.metadata().dev(), n.metadata().ino());
            return (Verdict::viol(format!("opened-although-path-fails|{}{}", errno, if id == t.secret { "|secret-outside-base" } else { "" }), format!("get({:?}) returned (dev,ino)={:?}, opening that path fails with errno {}", show(&c.path), id, errno)), None, desc);
        }
        (Err(e), Ok((want, gz))) => {
            return (Verdict::viol(format!("failed-although-path-opens|gz={}", gz), format!("get({:?}) failed with {:?}, the path names {:?}", show(&c.path), e, want.id())), None, desc);
        }
    }
    // the node's file, as an entity: its bytes must be the bytes of the file the path names (every
    // file of the tree contains its own absolute path)
    if let (Ok(node), Ok((_, gz))) = (r, &expected) {
        if node.metadata().is_file() {
            let full = format!("{}/{}{}", t.base.display(), path, if *gz { ".gz" } else { "" });
            if let Ok(want) = std::fs::read(&full) {
                let got = crate::util::catch(|| -> Result<Vec<u8>, String> {
                    use http_serve::Entity;
                    let e: http_serve::ChunkedReadFile<bytes::Bytes, crate::ent::BoxError> = node.into_file_entity(http::HeaderMap::new()).map_err(|e| e.to_string())?;
                    let len = e.len();
                    let mut s = e.get_range(0..len);
                    let w = std::task::Waker::from(Arc::new(crate::bodymon::CountWaker(std::sync::atomic::AtomicU64::new(0))));
                    let mut cx = std::task::Context::from_waker(&w);
                    let mut out = Vec::new();
                    for _ in 0..10_000 {
                        match futures_core::Stream::poll_next(s.as_mut(), &mut cx) {
                            std::task::Poll::Ready(Some(Ok(d))) => out.extend_from_slice(&d),
                            std::task::Poll::Ready(Some(Err(e))) => return Err(e.to_string()),
                            std::task::Poll::Ready(None) => return Ok(out),
                            std::task::Poll::Pending => {}
                        }
                    }
                    Err("no end within 10000 polls".into())
                });
                match got {
                    Ok(Ok(g)) if g == want => sink.count("entity_bytes_verified"),
                    Ok(Ok(g)) => {
                        return (Verdict::viol(format!("entity-bytes|gz={}", gz), format!("into_file_entity of get({:?}) yields {:?}, the file the path names contains {:?}", show(&c.path), show(&g[..g.len().min(80)]), show(&want[..want.len().min(80)]))), None, desc);
                    }
                    Ok(Err(e)) => return (Verdict::viol(format!("entity-failed|gz={}", gz), format!("into_file_entity / get_range on the regular file named by {:?} failed: {}", show(&c.path), e)), None, desc),
                    Err(p) => return (Verdict::viol(format!("panic@{}", norm_loc(&p)), format!("into_file_entity of get({:?}) panicked: {}", show(&c.path), p)), None, desc),
                }
            }
        }
    }
    (Verdict::Ok, Some(hash64(c)), desc)
}

const SEGS: [&str; 9] = ["a", "sub", "..", ".", "...", "..a", "a..", "", "secret"];
const EXTRA_SEGS: [&str; 20] = ["g", "g.gz", "h", "h.gz", "b", "c", "d", "e", "c.gz", "a.gz", "....gz", "nonexistent", "a.gz.gz", "b.gz", "b.gz.gz", "d.gz", "f.tar", "f.tar.gz", "f.tar.gz.gz", "e.gz"];

fn paths(max_segs: usize) -> Vec<String> {
    let mut out: Vec<String> = vec![String::new()];
    let mut layer: Vec<String> = vec![];
    for s in SEGS {
        layer.push(s.to_string());
    }
    for _ in 1..=max_segs {
        out.extend(layer.iter().cloned());
        let mut next = Vec::new();
        for p in &layer {
            for s in SEGS {
                next.push(format!("{}/{}", p, s));
            }
        }
        layer = next;
    }
    // variants with a leading slash (trailing slashes arise from the empty segment)
    let with_lead: Vec<String> = out.iter().map(|p| format!("/{}", p)).collect();
    out.extend(with_lead);
    // names around the .gz logic
    for s in EXTRA_SEGS {
        out.push(s.to_string());
        out.push(format!("sub/{}", s));
        out.push(format!("{}/", s));
        out.push(format!("./{}", s));
        out.push(format!("{}/a", s));
    }
    for n in LONG_NAME_LENS {
        let name = long_name(n);
        out.push(name.clone());
        out.push(format!("sub/{}", name));
        out.push(format!("./{}", name));
        out.push(format!("{}.gz", name));
        out.push(format!("sub/{}/", name));
    }
    out.sort();
    out.dedup();
    out
}

const AES: [Option<&[u8]>; 6] = [None, Some(b"gzip"), Some(b"identity"), Some(b"gzip;q=0"), Some(b"*"), Some(b"gzip;q=0.5, identity;q=0.6")];

fn self_check(sink: &mut Sink, all: &[String]) {
    let t = tree();
    for p in all {
        if p.is_empty() || is_rejected_class(p.as_bytes()).is_some() {
            continue;
        }
        let full = format!("{}/{}", t.base.display(), p);
        let kernel = std::fs::metadata(&full).map(|m| (m.dev(), m.ino())).map_err(|e| e.raw_os_error().unwrap_or(0));
        let model = resolve(&t.root, p).map(|n| n.id());
        assert_eq!(kernel, model, "harness resolver disagrees with the kernel on {:?}", p);
        sink.count("resolver_self_checks");
    }
}

fn fd_count() -> usize {
    std::fs::read_dir("/proc/self/fd").map(|d| d.count()).unwrap_or(0)
}

pub struct C19;

fn max_segs(ctx: &Ctx) -> usize {
    if ctx.leg.slow() { 2 } else if ctx.tier == Tier::Thorough { 4 } else { 3 }
}

impl Prop for C19 {
    fn id(&self) -> &'static str {
        "C19"
    }
    fn level(&self) -> &'static str {
        "exploration"
    }
    fn rule(&self, ctx: &Ctx) -> String {
        format!("three quarters of the cases carry a case-derived subset of 11 other request headers (Range, If-Range, validators, Content-Encoding, TE, Accept, ...; counters cases_with_other_request_headers / cases_with_range_and_if_range) next to Accept-Encoding, which must not change the node returned. exhaustive: every path of <= {} segments over {{a, sub, .., ., ..., ..a, a.., empty, secret}} joined by '/', with and without a leading slash (trailing slashes = empty last segment), plus names around the .gz logic (file with sibling, file without, sibling that is a directory, sibling that is a character device, empty sibling, .gz-only name, directory with a .gz file sibling, names of 200..255 bytes - with a sibling where one fits in a directory entry; siblings older and newer than their originals); a NUL byte inserted at every position of 300 of them; x Accept-Encoding {{absent, gzip, identity, gzip;q=0, *, gzip;q=0.5 vs identity;q=0.6}} x auto_gzip on/off; on a real tree with a 'secret' file next to the base directory. Oracle: in-memory POSIX relative-path resolver (self-checked against the kernel on every non-rejected path) giving the expected (dev, inode) or errno. Every regular file opened is also turned into an entity (`into_file_entity`) and read back: its bytes must be those of the file the path names (each file contains its own path). Non-trivial = distinct (path, Accept-Encoding, auto_gzip) judged; descriptor count of the process must return to its baseline. One FsDir is also queried while its tree changes (sibling created, turned into a directory, removed; original removed and re-created)", max_segs(ctx))
    }
    fn n_blocks(&self, _: &Ctx) -> usize {
        12 + 1 + 1
    }
    fn exhaustive(&self, _: &Ctx) -> bool {
        true
    }
    fn run_block(&self, b: usize, sink: &mut Sink) {
        let ctx = sink.ctx.clone();
        let all = paths(max_segs(&ctx));
        if b < 12 {
            let _g = FD_LOCK.read().unwrap_or_else(|p| p.into_inner());
            let ae = AES[b % 6];
            let auto_gzip = b / 6 == 0;
            if b == 0 {
                self_check(sink, &all);
            }
            for p in &all {
                if !sink.admit() {
                    continue;
                }
                let c = DirCase { path: p.clone().into_bytes(), accept_encoding: ae.map(|v| v.to_vec()), auto_gzip };
                let (v, nt, desc) = run_dir(&c, sink);
                sink.record(v, nt, &|| desc.clone());
            }
        } else if b == 12 {
            // a tree that changes while one FsDir serves it: a sibling appears, is replaced by a
            // directory, disappears; the original disappears and comes back. Every answer must
            // describe the tree as it is at that moment.
            {
                let tmp = TempDir::new("c19dyn");
                let base = tmp.0.join("base");
                std::fs::create_dir_all(base.join("d")).unwrap();
                let fsd = FsDir::builder().auto_gzip(true).for_path(&base).expect("FsDir");
                let mut hdrs = http::HeaderMap::new();
                hdrs.insert(http::header::ACCEPT_ENCODING, http::HeaderValue::from_static("gzip"));
                let ask = |p: &str| -> Result<((u64, u64), Option<&'static str>), String> {
                    let d = fsd.clone();
                    let (p2, h2) = (p.to_string(), hdrs.clone());
                    match crate::util::catch(|| RT.with(|rt| rt.block_on(async move { d.get(&p2, &h2).await }))) {
                        Err(pn) => Err(format!("panic: {}", pn)),
                        Ok(Err(e)) => Err(format!("{:?}", e.kind())),
                        Ok(Ok(n)) => Ok(((n.metadata().dev(), n.metadata().ino()), n.encoding())),
                    }
                };
                let mut verdict = Verdict::Ok;
                let mut steps: Vec<String> = Vec::new();
                'outer: for name in ["p.txt", "d/q"] {
                    let plain = base.join(name);
                    let gz = base.join(format!("{}.gz", name));
                    std::fs::write(&plain, b"plain").unwrap();
                    let mut expect = |what: &str, want: Result<(&std::path::Path, bool), ()>| -> bool {
                        let got = ask(name);
                        steps.push(format!("{} -> {:?}", what, got));
                        let ok = match (&got, want) {
                            (Ok((id, enc)), Ok((p, gzipped))) => *id == id_of(p) && (*enc == Some("gzip")) == gzipped,
                            (Err(_), Err(())) => true,
                            _ => false,
                        };
                        if !ok {
                            verdict = Verdict::viol(format!("changing-tree|{}", what.split(':').next().unwrap_or("")), format!("{} for {:?}: got {:?} (history: {:?})", what, name, got, steps));
                        }
                        ok
                    };
                    for round in 0..3 {
                        if !expect("no-sibling: plain file expected", Ok((&plain, false))) {
                            break 'outer;
                        }
                        std::fs::write(&gz, b"gz").unwrap();
                        if !expect("sibling-created: the sibling must be substituted", Ok((&gz, true))) {
                            break 'outer;
                        }
                        std::fs::remove_file(&gz).unwrap();
                        std::fs::create_dir(&gz).unwrap();
                        if !expect("sibling-is-now-a-directory: plain file expected", Ok((&plain, false))) {
                            break 'outer;
                        }
                        std::fs::remove_dir(&gz).unwrap();
                        std::fs::write(&gz, b"gz2").unwrap();
                        std::fs::remove_file(&plain).unwrap();
                        if !expect("original-removed: the sibling is still what gzip clients get", Ok((&gz, true))) {
                            break 'outer;
                        }
                        std::fs::remove_file(&gz).unwrap();
                        if !expect("both-removed: not found", Err(())) {
                            break 'outer;
                        }
                        std::fs::write(&plain, format!("plain{}", round)).unwrap();
                    }
                }
                if sink.admit() {
                    let ok = matches!(verdict, Verdict::Ok);
                    sink.record(verdict, Some(1912), &|| json!({"changing_tree_history": steps}));
                    if ok {
                        sink.count("changing_tree_histories");
                    }
                }
            }
            // NUL at every position of 300 paths
            let _g = FD_LOCK.read().unwrap_or_else(|p| p.into_inner());
            let step = (all.len() / 300).max(1);
            let mut picked: Vec<String> = all.iter().step_by(step).take(300).cloned().collect();
            // paths whose prefix before the NUL names something that exists (a NUL-truncated C string
            // would open it), with and without a .gz sibling
            for p in ["a", "b", "c", "d", "e", "sub", "sub/a", "sub/sub/a", "./a", "sub/./a", "...", "a.gz", "sub/..."] {
                picked.push(p.to_string());
                picked.push(format!("{}/x", p));
                picked.push(format!("{}x", p));
            }
            for p in &picked {
                for pos in 0..=p.len() {
                    let mut bytes = p.clone().into_bytes();
                    bytes.insert(pos, 0);
                    for (k, ae) in [None, Some(&b"gzip"[..]), Some(&b"*"[..])].into_iter().enumerate() {
                        for auto_gzip in [true, false] {
                            if !auto_gzip && k == 2 {
                                continue;
                            }
                            if !sink.admit() {
                                continue;
                            }
                            let c = DirCase { path: bytes.clone(), accept_encoding: ae.map(|v| v.to_vec()), auto_gzip };
                            let (v, nt, desc) = run_dir(&c, sink);
                            sink.record(v, nt, &|| desc.clone());
                        }
                    }
                }
            }
        } else {
            // descriptor leak: exclusive, so that no other worker opens files meanwhile
            let _g = FD_LOCK.write().unwrap_or_else(|p| p.into_inner());
            let _ = dirs();
            let warm = DirCase { path: b"a".to_vec(), accept_encoding: Some(b"gzip".to_vec()), auto_gzip: true };
            let _ = run_dir(&warm, sink);
            let before = fd_count();
            for p in all.iter().take(2000) {
                for ae in [None, Some(&b"gzip"[..])] {
                    let c = DirCase { path: p.clone().into_bytes(), accept_encoding: ae.map(|v| v.to_vec()), auto_gzip: true };
                    let _ = run_dir(&c, sink);
                }
            }
            let after = fd_count();
            if sink.admit() {
                let v = if after > before {
                    Verdict::viol("descriptor-leak", format!("{} descriptors open before, {} after {} get() calls whose nodes were all dropped", before, after, 4000))
                } else {
                    sink.count("descriptor_baseline_checked");
                    Verdict::Ok
                };
                sink.record(v, Some(19), &|| json!({"fd_before": before, "fd_after": after}));
            }
        }
    }
    fn replay(&self, case: &Value, sink: &mut Sink) {
        let c = if case.get("case").is_some() { &case["case"] } else { case };
        let d = DirCase {
            path: bytes_from_json(&c["path"]),
            accept_encoding: match &c["accept_encoding"] {
                Value::Null => None,
                x => Some(bytes_from_json(x)),
            },
            auto_gzip: c["auto_gzip"].as_bool().unwrap_or(true),
        };
        let (v, nt, desc) = run_dir(&d, sink);
        sink.record(v, nt, &|| desc.clone());
    }
    fn floors(&self, _: &Ctx) -> Vec<(&'static str, u64)> {
        vec![("rejected_nul", 300), ("rejected_absolute", 300), ("rejected_dotdot", 300), ("opened_gz_sibling", 50), ("opened_plain", 300), ("opened_directory", 100), ("failed_enoent", 300), ("failed_enotdir", 100), ("gzip_wanted_but_no_usable_sibling", 100), ("resolver_self_checks", 100), ("descriptor_baseline_checked", 1)]
    }
    fn assumptions(&self) -> Vec<String> {
        vec!["not judged: symlinks (explicitly followed by the crate), permissions (sandbox runs as root); the Accept-Encoding decision is taken from the real should_gzip (judged by C16)".into()]
    }
}
