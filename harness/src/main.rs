//! hsv: runtime-monitoring harness for http-serve. One invocation runs one property's
//! workload in one leg and writes a JSON result file; /verif/check drives it.


use hsv::driver::{self, Ctx, Leg, Tier};
use hsv::{alloc, props, util};

#[global_allocator]
static GLOBAL: alloc::Counting = alloc::Counting;

fn main() {
    let args: Vec<String> = std::env::args().collect();
    if args.len() < 2 {
        eprintln!("usage: hsv <property|list> [--tier quick|thorough] [--leg native|release-plain|miri|asan|tsan|memcheck] [--seed N] [--threads N] [--shard i/n] [--max-cases N] [--stride N] [--replay FILE] [--out FILE]");
        std::process::exit(2);
    }
    let mut ctx = Ctx {
        tier: Tier::Quick,
        leg: Leg::Native,
        seed: 0,
        threads: std::thread::available_parallelism().map(|n| n.get()).unwrap_or(4),
        shard: (0, 1),
        max_cases: 0,
        stride: 1,
        time_budget_s: 0,
    };
    let mut out: Option<String> = None;
    let mut replay: Option<String> = None;
    let mut fuzz_artifact: Option<String> = None;
    let mut i = 2;
    while i < args.len() {
        let val = |i: usize| args.get(i + 1).cloned().unwrap_or_default();
        match args[i].as_str() {
            "--tier" => {
                ctx.tier = if val(i) == "thorough" { Tier::Thorough } else { Tier::Quick };
                i += 1;
            }
            "--leg" => {
                ctx.leg = match val(i).as_str() {
                    "release-plain" => Leg::ReleasePlain,
                    "miri" => Leg::Miri,
                    "asan" => Leg::Asan,
                    "tsan" => Leg::Tsan,
                    "memcheck" => Leg::Memcheck,
                    _ => Leg::Native,
                };
                i += 1;
            }
            "--seed" => {
                ctx.seed = val(i).parse().unwrap_or(0);
                i += 1;
            }
            "--threads" => {
                ctx.threads = val(i).parse().unwrap_or(1);
                i += 1;
            }
            "--shard" => {
                let v = val(i);
                let (a, b) = v.split_once('/').unwrap_or(("0", "1"));
                ctx.shard = (a.parse().unwrap_or(0), b.parse().unwrap_or(1).max(1));
                i += 1;
            }
            "--max-cases" => {
                ctx.max_cases = val(i).parse().unwrap_or(0);
                i += 1;
            }
            "--stride" => {
                ctx.stride = val(i).parse().unwrap_or(1).max(1);
                i += 1;
            }
            "--time-budget" => {
                ctx.time_budget_s = val(i).parse().unwrap_or(0);
                i += 1;
            }
            "--out" => {
                out = Some(val(i));
                i += 1;
            }
            "--replay" => {
                replay = Some(val(i));
                i += 1;
            }
            "--fuzz-artifact" => {
                fuzz_artifact = Some(val(i));
                i += 1;
            }
            other => {
                eprintln!("unknown argument {}", other);
                std::process::exit(2);
            }
        }
        i += 1;
    }
    let all = props();
    if args[1] == "list" {
        for p in &all {
            println!("{}", p.id());
        }
        return;
    }
    let prop = match all.iter().find(|p| p.id() == args[1]) {
        Some(p) => p,
        None => {
            eprintln!("unknown property {}", args[1]);
            std::process::exit(2);
        }
    };
    util::install_quiet_panic_hook();
    if let Some(path) = fuzz_artifact {
        // a libFuzzer artifact: decode it exactly as the fuzz target does and replay it natively
        let bytes = std::fs::read(&path).expect("artifact readable");
        let case = hsv::fuzzdec::artifact_to_case(&args[1], &bytes);
        let result = driver::run(prop.as_ref(), &ctx, Some(&case));
        let text = serde_json::to_string_pretty(&result).unwrap();
        match out {
            Some(p) => std::fs::write(p, text).expect("write result"),
            None => println!("{}", text),
        }
        return;
    }
    let replay_case = replay.map(|path| {
        let text = std::fs::read_to_string(&path).expect("replay file readable");
        let v: serde_json::Value = serde_json::from_str(&text).expect("replay file is JSON");
        // accept either the bare case or a violation record wrapping it
        if v.get("case").is_some() && v.get("signature").is_some() {
            v["case"].clone()
        } else {
            v
        }
    });
    let result = driver::run(prop.as_ref(), &ctx, replay_case.as_ref());
    util::run_cleanups();
    let text = serde_json::to_string_pretty(&result).unwrap();
    match out {
        Some(p) => std::fs::write(p, text).expect("write result"),
        None => println!("{}", text),
    }
}
