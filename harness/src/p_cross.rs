//! Properties that are per-step invariants over the bodies of all engines: C12 (size hints and
//! end-of-stream flag) and C20 (terminated bodies stay terminated).

use crate::bodymon::{drain, Drain, Ev, Terminal};
use crate::driver::{Ctx, Prop, Sink, Tier, Verdict};
use crate::e1::{ServeCase, ServeObs};
use crate::e2::{Res, StreamCase, StreamObs};
use crate::e3::{Ev3, Mode, SchedCase, SchedObs, WakerPolicy};
use crate::ent::BoxError;
use crate::p_sched::{dfs, programs, sched_case_with_obs};
use crate::p_serve::{c01_block, c01_n_blocks, long_body_block, long_body_n, c06_block, c06_n_blocks, c07_cases_for_tuple, c07_tuples, long_fault_cases, empty_entity_fault_cases, exec as exec_serve, replay_serve};
use crate::p_stream::{c08_block, c08_n_blocks, c09_block, c09_n_blocks, c11_run_seq_block, c11_seq_space, replay as replay_stream};
use crate::util::{hash64, norm_loc, Rng};
use bytes::Bytes;
use serde_json::{json, Value};

pub fn register(v: &mut Vec<Box<dyn Prop>>) {
    v.push(Box::new(C12));
    v.push(Box::new(C20));
}

fn thorough(ctx: &Ctx) -> bool {
    ctx.tier == Tier::Thorough
}

// =================================================================================== C12 ====

pub struct C12;

/// Judges the per-step samples of one drained body. `exact` = the body kind promises exact
/// hints. `total` = bytes delivered at the clean end (None if the body did not end cleanly).
fn judge_steps(kind: &str, steps: &[(u64, Option<u64>, bool, &Ev, u64)], total: Option<u64>, exact: bool, announced: Option<u64>) -> Result<(), Verdict> {
    let mut end_claimed_at: Option<usize> = None;
    for (i, (lower, upper, is_end, ev, before)) in steps.iter().enumerate() {
        if let Some(j) = end_claimed_at {
            // after is_end_stream() was true, nothing but end / pending may follow
            if matches!(ev, Ev::Data(n) if *n > 0) || matches!(ev, Ev::Err(_)) {
                let _ = j;
            }
        }
        if exact && *upper != Some(*lower) {
            return Err(Verdict::viol(format!("inexact-hint|{}", kind), format!("step {}: size hint {}..{:?} is not exact", i, lower, upper)));
        }
        if let Some(t) = total {
            let remaining = t.saturating_sub(*before);
            if *lower > remaining {
                return Err(Verdict::viol(format!("lower-bound-too-high|{}", kind), format!("step {}: lower bound {} but only {} bytes were still to come (total {}, delivered {})", i, lower, remaining, t, before)));
            }
            if let Some(u) = upper {
                if *u < remaining {
                    return Err(Verdict::viol(format!("upper-bound-too-low|{}", kind), format!("step {}: upper bound {} but {} bytes were still to come (total {}, delivered {})", i, u, remaining, t, before)));
                }
            }
        } else if let (true, Some(a)) = (exact, announced) {
            // undrained: the exact hint must track announced - delivered
            if *lower != a.saturating_sub(*before) {
                return Err(Verdict::viol(format!("hint-bookkeeping|{}", kind), format!("step {}: exact hint {} but announced {} - delivered {} = {}", i, lower, a, before, a.saturating_sub(*before))));
            }
        }
        if *is_end {
            match ev {
                Ev::Data(n) if *n > 0 => return Err(Verdict::viol(format!("is-end-stream-then-data|{}", kind), format!("step {}: is_end_stream() was true, the poll then produced {} bytes", i, n))),
                Ev::Err(e) => return Err(Verdict::viol(format!("is-end-stream-then-error|{}", kind), format!("step {}: is_end_stream() was true, the poll then produced error {:?}", i, e))),
                _ => {}
            }
            if end_claimed_at.is_none() {
                end_claimed_at = Some(i);
            }
        } else if end_claimed_at.is_some() {
            // flag went back to false: only a problem if data follows, handled below
        }
        if let Some(j) = end_claimed_at {
            if j < i && (matches!(ev, Ev::Data(n) if *n > 0) || matches!(ev, Ev::Err(_))) {
                return Err(Verdict::viol(format!("data-after-is-end-stream|{}", kind), format!("is_end_stream() was true at step {}, step {} produced {:?}", j, i, ev)));
            }
        }
    }
    Ok(())
}

fn c12_serve_judge(c: &ServeCase, o: &ServeObs, sink: &mut Sink) -> (Verdict, Option<u64>) {
    if o.serve_panic.is_some() || c.ent.fault.is_some() {
        return (Verdict::DontCare("not a contract-honouring run".into()), None);
    }
    let r = o.resp.as_ref().unwrap();
    let d = o.drain.as_ref().unwrap();
    let kind = if r.get("content-type").is_some_and(|t| t.starts_with(b"multipart/")) { "serve-multipart" } else if r.status == 200 || r.status == 206 { "serve-exactlen" } else { "serve-once" };
    let total = if d.terminal == Terminal::End { Some(d.total) } else { None };
    if !matches!(d.terminal, Terminal::End | Terminal::Capped) {
        return (Verdict::DontCare("body failed (judged elsewhere)".into()), None);
    }
    let steps: Vec<(u64, Option<u64>, bool, &Ev, u64)> = d.steps.iter().map(|s| (s.lower, s.upper, s.is_end, &s.ev, s.before)).collect();
    let announced = if c.method == "HEAD" { None } else { r.get_u64("content-length") };
    if let Err(v) = judge_steps(kind, &steps, total, true, announced) {
        return (v, None);
    }
    sink.add("hint_samples", steps.len() as u64);
    sink.count(&format!("bodies_{}", kind));
    (Verdict::Ok, if steps.len() > 1 { Some(hash64(c)) } else { None })
}

fn c12_stream_judge(c: &StreamCase, o: &StreamObs, sink: &mut Sink) -> (Verdict, Option<u64>) {
    if o.build_panic.is_some() {
        return (Verdict::DontCare("build panicked".into()), None);
    }
    let polls: Vec<&crate::e2::PollRec> = o.all_polls().collect();
    let ended_cleanly = polls.iter().any(|p| p.ev == Ev::End) && !polls.iter().any(|p| matches!(p.ev, Ev::Err(_)));
    let total = if ended_cleanly { Some(o.delivered.len() as u64) } else { None };
    let steps: Vec<(u64, Option<u64>, bool, &Ev, u64)> = polls.iter().map(|p| (p.lower, p.upper, p.is_end, &p.ev, p.before)).collect();
    let kind = if o.hdr("content-encoding").is_some() { "stream-gzip" } else { "stream-raw" };
    if let Err(v) = judge_steps(kind, &steps, total, false, None) {
        return (v, None);
    }
    for s in &o.steps {
        if let Res::Panic(p) = &s.res {
            sink.cross_note("panic-in-stream-op", || p.clone());
        }
    }
    sink.add("hint_samples", steps.len() as u64);
    sink.count(&format!("bodies_{}", kind));
    if polls.iter().any(|p| p.upper.is_some()) {
        sink.count("samples_with_upper_bound");
    }
    (Verdict::Ok, if steps.len() > 1 { Some(hash64(c)) } else { None })
}

fn c12_sched_judge(c: &SchedCase, o: &SchedObs, sink: &mut Sink) -> Verdict {
    if o.panic.is_some() || o.deadlock.is_some() || o.lost_wakeup.is_some() {
        return Verdict::DontCare("progress problem (C10)".into());
    }
    let mut steps: Vec<(u64, Option<u64>, bool, &Ev, u64)> = Vec::new();
    for e in &o.events {
        if let Ev3::Poll { hint: Some((l, u, e2)), ev, before, .. } = e {
            steps.push((*l, *u, *e2, ev, *before));
        }
    }
    let total = if o.terminal == Some(Ev::End) { Some(o.delivered.len() as u64) } else { None };
    let kind = if c.gzip.is_some() { "sched-gzip" } else { "sched-raw" };
    if let Err(v) = judge_steps(kind, &steps, total, false, None) {
        return v;
    }
    sink.add("hint_samples", steps.len() as u64);
    sink.add("hint_samples_in_schedules", steps.len() as u64);
    Verdict::Ok
}

/// `Body::from` conversions and `Body::empty()`.
fn c12_conversions(sink: &mut Sink) {
    type B = http_serve::Body<Bytes, BoxError>;
    static S0: &[u8] = b"";
    static S1: &[u8] = b"x";
    static S4096: [u8; 4096] = [b'y'; 4096];
    let mk: Vec<(&str, usize, Box<dyn Fn() -> B>)> = vec![
        ("empty", 0, Box::new(B::empty)),
        ("static-bytes", 0, Box::new(|| B::from(S0))),
        ("static-bytes", 1, Box::new(|| B::from(S1))),
        ("static-bytes", 4096, Box::new(|| B::from(&S4096[..]))),
        ("static-str", 0, Box::new(|| B::from(""))),
        ("static-str", 1, Box::new(|| B::from("x"))),
        ("static-str", 43, Box::new(|| B::from("This resource only supports GET and HEAD...")),),
        ("vec", 0, Box::new(|| B::from(Vec::<u8>::new()))),
        ("vec", 1, Box::new(|| B::from(vec![7u8]))),
        ("vec", 4096, Box::new(|| B::from(vec![9u8; 4096]))),
        ("string", 0, Box::new(|| B::from(String::new()))),
        ("string", 1, Box::new(|| B::from(String::from("z")))),
        ("string", 4096, Box::new(|| B::from("q".repeat(4096)))),
    ];
    for (name, len, f) in mk {
        for extra in 0..3usize {
            if !sink.admit() {
                return;
            }
            let d: Drain = drain(f(), u64::MAX, extra);
            let steps: Vec<(u64, Option<u64>, bool, &Ev, u64)> = d.steps.iter().map(|s| (s.lower, s.upper, s.is_end, &s.ev, s.before)).collect();
            let kind = format!("from-{}", name);
            let desc = json!({"conversion": name, "len": len, "extra_polls": extra, "observed": d.summary()});
            let mut v = match judge_steps(&kind, &steps, if d.terminal == Terminal::End { Some(d.total) } else { None }, true, Some(len as u64)) {
                Ok(()) => Verdict::Ok,
                Err(v) => v,
            };
            if matches!(v, Verdict::Ok) && (d.terminal != Terminal::End || d.total != len as u64) {
                v = Verdict::viol(format!("conversion-wrong-length|{}", kind), format!("{} of {} bytes delivered {} bytes, terminal {:?}", name, len, d.total, d.terminal));
            }
            sink.count("conversion_bodies");
            sink.add("hint_samples", steps.len() as u64);
            sink.record(v, Some(hash64(&(name, len, extra))), &|| desc.clone());
        }
    }
}

/// Free-running hint-spin trials (see e3::run_spin).
fn c12_spin_judge(c: &crate::e3::SpinCase, o: &crate::e3::SpinObs, sink: &mut Sink) -> Verdict {
    let kind = if c.gzip.is_some() { "spin-gzip" } else { "spin-raw" };
    if let Some(p) = &o.panic {
        sink.cross_note("panic-in-stream-op", || p.clone());
        return Verdict::DontCare("panic (judged by C08/C10)".into());
    }
    let total = if o.terminal == Some(Ev::End) { Some(o.delivered) } else { None };
    for (l, u, e, d) in &o.samples {
        if *e {
            if let Some(bad) = o.after_end_flag.iter().find(|ev| matches!(ev, Ev::Data(n) if *n > 0) || matches!(ev, Ev::Err(_))) {
                let what = if matches!(bad, Ev::Err(_)) { "error" } else { "data" };
                return Verdict::viol(format!("end-flag-then-{}|{}", what, kind), format!("is_end_stream() returned true with {} bytes delivered; the body then produced {:?}", d, bad));
            }
        }
        if let Some(t) = total {
            let rem = t - d;
            if *l > rem {
                return Verdict::viol(format!("lower-above-remaining|{}", kind), format!("size_hint lower {} with {} bytes still to come (delivered {} of {})", l, rem, d, t));
            }
            if u.is_some_and(|u| u < rem) {
                return Verdict::viol(format!("upper-below-remaining|{}", kind), format!("size_hint upper {:?} with {} bytes still to come (delivered {} of {})", u, rem, d, t));
            }
        }
    }
    sink.count("spin_trials");
    sink.add("hint_samples", o.n_samples);
    sink.add("spin_hint_samples", o.n_samples);
    sink.add("spin_samples_while_writer_ending", o.samples_during_end);
    if o.samples.iter().any(|s| s.2) {
        sink.count("spin_trials_end_flag_seen_while_spinning");
    }
    if o.samples_during_end > 0 {
        sink.count("spin_trials_overlapping_the_writer_end");
    }
    Verdict::Ok
}

fn c12_spin_blocks(ctx: &Ctx) -> Vec<(usize, Option<u32>, bool, u64)> {
    let n = if ctx.leg.slow() { 2 } else if thorough(ctx) { 20_000 } else { 2500 };
    let mut v = Vec::new();
    for (chunk, gzip) in [(4096usize, None), (4, None), (4096, Some(1u32)), (65_536, Some(6))] {
        for abort in [false, true] {
            v.push((chunk, gzip, abort, n));
            if ctx.leg.slow() {
                return v;
            }
        }
    }
    v
}

fn c12_spin_block(b: usize, sink: &mut Sink) {
    let ctx = sink.ctx.clone();
    let (chunk, gzip, abort, n) = c12_spin_blocks(&ctx)[b];
    let mut rng = Rng::from_parts(ctx.seed, &[1212, b as u64]);
    for _ in 0..n {
        if !sink.admit() {
            return;
        }
        let case = crate::e3::SpinCase {
            chunk,
            gzip,
            pre: *rng.pick(&[0u32, 1, 5, chunk as u32]),
            tail: *rng.pick(&[1u32, 1, 3, 0, chunk as u32 - 1]),
            abort,
            delay: if rng.chance(1, 2) { rng.below(64) as u32 } else { rng.below(4000) as u32 },
        };
        if let Some(o) = crate::e3::run_spin(&case) {
            let v = c12_spin_judge(&case, &o, sink);
            sink.record(v, Some(hash64(&(&case, o.samples.len(), o.samples_during_end > 0))), &|| json!({"case": case.to_json(), "observed": o.to_json()}));
        }
    }
}

fn c12_sched_blocks(ctx: &Ctx) -> Vec<(usize, Option<u32>, Vec<crate::e3::POp>, WakerPolicy, u64)> {
    let mut v = Vec::new();
    let cap = if ctx.leg.slow() { 6 } else if thorough(ctx) { 3000 } else { 300 };
    let max = if ctx.leg.slow() { 1 } else { 2 };
    for prog in programs(2, max) {
        v.push((2usize, None, prog.clone(), WakerPolicy::Same, cap));
        if !ctx.leg.slow() {
            v.push((2usize, Some(1u32), prog, WakerPolicy::Fresh, cap / 3));
        }
    }
    v
}

impl Prop for C12 {
    fn id(&self) -> &'static str {
        "C12"
    }
    fn level(&self) -> &'static str {
        "exploration"
    }
    fn rule(&self, _: &Ctx) -> String {
        "size_hint() and is_end_stream() sampled before EVERY poll of every body of: the C01 workload (serve: Once / ExactLen bodies, all lengths x chunk plans), the C06 workload (multipart), the C08, C09 and C11 op sequences (streaming raw / gzip, incl. abort), C10-style schedules with the hint sampled inside the scheduling windows, free-running hint-spin trials (one thread calls is_end_stream()/size_hint() in a tight loop while another ends the writer - drop with an unflushed tail, or abort - after a random delay; samples judged against what the body then delivers), and all Body::from conversions + Body::empty (lengths 0, 1, 4096). Judged against the total known at the clean end: lower <= remaining <= upper, exactness for serve and conversion bodies, nothing but end after is_end_stream() = true. Non-trivial = distinct body with >= 2 samples".into()
    }
    fn n_blocks(&self, ctx: &Ctx) -> usize {
        c01_n_blocks(ctx) + c06_n_blocks() + c08_n_blocks(ctx) + c09_n_blocks(ctx) + c11_seq_space(ctx).blocks.len() + c12_sched_blocks(ctx).len() + c12_spin_blocks(ctx).len() + long_body_n(ctx) + 1
    }
    fn run_block(&self, b: usize, sink: &mut Sink) {
        let ctx = sink.ctx.clone();
        let mut k = b;
        if ctx.leg == crate::driver::Leg::Tsan {
            // single-threaded bodies have nothing for the race detector: two-thread blocks only
            let first = c01_n_blocks(&ctx) + c06_n_blocks() + c08_n_blocks(&ctx) + c09_n_blocks(&ctx) + c11_seq_space(&ctx).blocks.len();
            if k < first || k == self.n_blocks(&ctx) - 1 {
                return;
            }
        }
        // the C01 workload is large; C12 takes every 2nd request of it in the quick tier
        let n = c01_n_blocks(&ctx);
        if k < n {
            if thorough(&ctx) || k % 2 == 0 {
                c01_block(k, sink, &c12_serve_judge);
            }
            return;
        }
        k -= n;
        let n = c06_n_blocks();
        if k < n {
            c06_block(k, sink, &c12_serve_judge);
            return;
        }
        k -= n;
        let n = c08_n_blocks(&ctx);
        if k < n {
            c08_block(k, sink, &c12_stream_judge);
            return;
        }
        k -= n;
        let n = c09_n_blocks(&ctx);
        if k < n {
            if thorough(&ctx) || k % 3 == 0 {
                c09_block(k, sink, &c12_stream_judge);
            }
            return;
        }
        k -= n;
        let sp = c11_seq_space(&ctx);
        if k < sp.blocks.len() {
            c11_run_seq_block(&ctx, sp.blocks[k], sink, &c12_stream_judge);
            return;
        }
        k -= sp.blocks.len();
        let sb = c12_sched_blocks(&ctx);
        if k < sb.len() {
            let (chunk, gzip, prog, policy, cap) = sb[k].clone();
            let mut base = SchedCase::new(chunk, gzip, prog, policy);
            base.sample_hints = true;
            let (nrun, _) = dfs(&base, cap, sink, &c12_sched_judge);
            sink.add("schedules", nrun);
            return;
        }
        k -= sb.len();
        if k < c12_spin_blocks(&ctx).len() {
            c12_spin_block(k, sink);
            return;
        }
        k -= c12_spin_blocks(&ctx).len();
        if k < long_body_n(&ctx) {
            long_body_block(k, sink, &c12_serve_judge);
            return;
        }
        c12_conversions(sink);
    }
    fn replay(&self, case: &Value, sink: &mut Sink) {
        let inner = if case.get("case").is_some() { &case["case"] } else { case };
        if inner.get("conversion").is_some() {
            c12_conversions(sink);
        } else if inner.get("spin").is_some() {
            let c = crate::e3::SpinCase::from_json(inner);
            for _ in 0..20_000 {
                if let Some(o) = crate::e3::run_spin(&c) {
                    let v = c12_spin_judge(&c, &o, sink);
                    sink.record(v, Some(hash64(&c)), &|| json!({"case": c.to_json(), "observed": o.to_json()}));
                }
            }
        } else if inner.get("prog").is_some() {
            let c = SchedCase::from_json(inner);
            if let Some(o) = crate::e3::run_sched(&c) {
                let v = c12_sched_judge(&c, &o, sink);
                sink.record(v, Some(o.trace_hash), &|| sched_case_with_obs(&c, &o));
            }
        } else if inner.get("ops").is_some() {
            replay_stream(&c12_stream_judge, case, sink);
        } else {
            replay_serve(&c12_serve_judge, case, sink);
        }
    }
    fn floors(&self, _: &Ctx) -> Vec<(&'static str, u64)> {
        vec![("hint_samples", 100_000), ("bodies_serve-multipart", 1000), ("bodies_serve-exactlen", 1000), ("bodies_serve-once", 1000), ("bodies_stream-raw", 1000), ("bodies_stream-gzip", 1000), ("conversion_bodies", 30), ("hint_samples_in_schedules", 1000), ("samples_with_upper_bound", 1000), ("spin_trials", 1000), ("spin_trials_overlapping_the_writer_end", 100)]
    }
    fn assumptions(&self) -> Vec<String> {
        vec!["the range of the hint is judged only for bodies that end cleanly (the statement conditions on it); undrained giant serve bodies are judged on exactness and on hint = announced - delivered".into()]
    }
}

// =================================================================================== C20 ====

pub struct C20;

fn post_verdict(kind: &str, terminal: &str, post: &[Ev]) -> Result<(), Verdict> {
    for (k, e) in post.iter().enumerate() {
        match e {
            Ev::Data(n) if *n > 0 => return Err(Verdict::viol(format!("data-after-{}|{}", terminal, kind), format!("poll {} after the terminal event ({}) yielded {} bytes of data", k + 1, terminal, n))),
            Ev::Panic(p) => return Err(Verdict::viol(format!("panic-after-{}|{}@{}", terminal, kind, norm_loc(p)), format!("poll {} after the terminal event ({}) panicked: {}", k + 1, terminal, p))),
            Ev::OtherFrame => return Err(Verdict::viol(format!("frame-after-{}|{}", terminal, kind), "non-data frame after the terminal event")),
            _ => {}
        }
    }
    Ok(())
}

fn c20_serve_judge(c: &ServeCase, o: &ServeObs, sink: &mut Sink) -> (Verdict, Option<u64>) {
    if o.serve_panic.is_some() {
        return (Verdict::DontCare("serve panicked (C13)".into()), None);
    }
    let r = o.resp.as_ref().unwrap();
    let d = o.drain.as_ref().unwrap();
    let kind = if r.get("content-type").is_some_and(|t| t.starts_with(b"multipart/")) { "serve-multipart" } else if r.status == 200 || r.status == 206 { "serve-exactlen" } else { "serve-once" };
    let terminal = match &d.terminal {
        Terminal::End => "end",
        Terminal::Err(e) => {
            if e.contains("still expected") {
                "too-short"
            } else if e.contains("more than expected") {
                "too-long"
            } else {
                "entity-error"
            }
        }
        Terminal::Panic(_) => return (Verdict::DontCare("panic before the terminal event (C13)".into()), None),
        _ => return (Verdict::Ok, None),
    };
    if let Err(v) = post_verdict(kind, terminal, &d.post) {
        return (v, None);
    }
    if d.post.is_empty() {
        return (Verdict::Ok, None);
    }
    sink.count(&format!("post_{}_{}", terminal, kind));
    sink.add("post_terminal_polls", d.post.len() as u64);
    (Verdict::Ok, Some(hash64(c)))
}

fn c20_stream_judge(c: &StreamCase, o: &StreamObs, sink: &mut Sink) -> (Verdict, Option<u64>) {
    if o.build_panic.is_some() {
        return (Verdict::DontCare("build panicked".into()), None);
    }
    let kind = if o.hdr("content-encoding").is_some() { "stream-gzip" } else { "stream-raw" };
    let mut terminal: Option<&str> = None;
    let mut post: Vec<Ev> = Vec::new();
    for s in &o.steps {
        match &s.res {
            Res::Polls(ps) => {
                for p in ps {
                    if terminal.is_some() {
                        post.push(p.ev.clone());
                    } else if p.ev == Ev::End {
                        terminal = Some("end");
                    } else if matches!(p.ev, Ev::Err(_)) {
                        terminal = Some("abort");
                    }
                }
            }
            Res::Panic(p) if terminal.is_some() && matches!(s.op, crate::e2::Op::PollOnce | crate::e2::Op::PollAll) => post.push(Ev::Panic(p.clone())),
            _ => {}
        }
    }
    let terminal = match terminal {
        Some(t) => t,
        None => return (Verdict::Ok, None),
    };
    if let Err(v) = post_verdict(kind, terminal, &post) {
        return (v, None);
    }
    if post.is_empty() {
        return (Verdict::Ok, None);
    }
    sink.count(&format!("post_{}_{}", terminal, kind));
    sink.add("post_terminal_polls", post.len() as u64);
    (Verdict::Ok, Some(hash64(c)))
}

fn c20_sched_judge(c: &SchedCase, o: &SchedObs, sink: &mut Sink) -> Verdict {
    let kind = if c.gzip.is_some() { "sched-gzip" } else { "sched-raw" };
    let terminal = match &o.terminal {
        Some(Ev::End) => "end",
        Some(Ev::Err(_)) => "abort",
        _ => return Verdict::Ok,
    };
    if let Some(p) = &o.panic {
        if p.starts_with("consumer") {
            return Verdict::viol(format!("panic-after-{}|{}@{}", terminal, kind, norm_loc(p)), p.clone());
        }
    }
    if let Err(v) = post_verdict(kind, terminal, &o.post) {
        return v;
    }
    if !o.post.is_empty() {
        sink.count(&format!("post_{}_{}", terminal, kind));
        sink.add("post_terminal_polls", o.post.len() as u64);
    }
    Verdict::Ok
}

impl Prop for C20 {
    fn id(&self) -> &'static str {
        "C20"
    }
    fn level(&self) -> &'static str {
        "fault_enumeration"
    }
    fn rule(&self, _: &Ctx) -> String {
        "every body is polled k more times after its first terminal event (k = 3 for serve bodies, 2 for streaming sequences, 2 in schedules): all C07 fault cases (every chunking <= 4 chunks x fault kind x byte offset x 200 / single 206 / each multipart part => terminal kinds clean end, entity error, too-short, too-long; entity streams that panic instead of failing (judged only if the body reports an error rather than propagating the panic); the same fault kinds late in bodies of 64 KiB .. 200 KB), the honest C01 and C06 workloads (clean end), the C08 / C09 / C11 op sequences (clean end, abort), abort programs under the scheduler. A poll after the terminal event that panics or yields data is a violation. Non-trivial = distinct case with >= 1 post-terminal poll judged".into()
    }
    fn n_blocks(&self, ctx: &Ctx) -> usize {
        let t = if ctx.leg.slow() { 40 } else { c07_tuples().len() };
        t + c01_n_blocks(ctx) + c06_n_blocks() + c08_n_blocks(ctx) + c09_n_blocks(ctx) + c11_seq_space(ctx).blocks.len() + 12
    }
    fn exhaustive(&self, _: &Ctx) -> bool {
        false
    }
    fn run_block(&self, b: usize, sink: &mut Sink) {
        let ctx = sink.ctx.clone();
        let slow = ctx.leg.slow();
        let tuples = c07_tuples();
        let nt = if slow { 40 } else { tuples.len() };
        let mut k = b;
        if k < nt {
            let t = if slow { &tuples[(k * 7919) % tuples.len()] } else { &tuples[k] };
            for mut c in c07_cases_for_tuple(t, slow) {
                c.extra_polls = 4;
                exec_serve(&c, sink, &c20_serve_judge);
                // the same with the entity stream panicking instead of returning an error: if the
                // body turns that into an error (it need not), the error is terminal like any other
                // (not in the interpreter / sanitizer legs: after a panic the harness deliberately
                // leaks the body, which Miri's leak check would report)
                if !slow && matches!(c.ent.fault, Some(crate::ent::Fault { kind: crate::ent::FaultKind::Err, .. })) {
                    if let Some(f) = c.ent.fault.as_mut() {
                        f.kind = crate::ent::FaultKind::Panic;
                    }
                    exec_serve(&c, sink, &c20_serve_judge);
                    sink.count("entity_panic_cases");
                }
            }
            if k == 0 {
                for c in long_fault_cases(slow) {
                    exec_serve(&c, sink, &c20_serve_judge);
                    sink.count("long_body_fault_cases");
                }
                for c in empty_entity_fault_cases() {
                    exec_serve(&c, sink, &c20_serve_judge);
                }
            }
            return;
        }
        k -= nt;
        let n = c01_n_blocks(&ctx);
        if k < n {
            if thorough(&ctx) || k % 4 == 0 {
                c01_block(k, sink, &c20_serve_judge);
            }
            return;
        }
        k -= n;
        let n = c06_n_blocks();
        if k < n {
            c06_block(k, sink, &c20_serve_judge);
            return;
        }
        k -= n;
        let n = c08_n_blocks(&ctx);
        if k < n {
            c08_block(k, sink, &c20_stream_judge);
            return;
        }
        k -= n;
        let n = c09_n_blocks(&ctx);
        if k < n {
            if thorough(&ctx) || k % 3 == 0 {
                c09_block(k, sink, &c20_stream_judge);
            }
            return;
        }
        k -= n;
        let sp = c11_seq_space(&ctx);
        if k < sp.blocks.len() {
            c11_run_seq_block(&ctx, sp.blocks[k], sink, &c20_stream_judge);
            return;
        }
        k -= sp.blocks.len();
        // schedules: programs of <= 2 ops (incl. abort), extra polls after the terminal event
        let progs = programs(2, if slow { 1 } else { 2 });
        for (i, prog) in progs.iter().enumerate() {
            if i % 12 != k {
                continue;
            }
            let mut base = SchedCase::new(2, if i % 5 == 4 { Some(1) } else { None }, prog.clone(), [WakerPolicy::Same, WakerPolicy::Fresh][i % 2]);
            base.extra_polls = 2;
            base.mode = Mode::Det;
            let (nrun, _) = dfs(&base, if slow { 4 } else if thorough(&ctx) { 2000 } else { 200 }, sink, &c20_sched_judge);
            sink.add("schedules", nrun);
        }
    }
    fn replay(&self, case: &Value, sink: &mut Sink) {
        let inner = if case.get("case").is_some() { &case["case"] } else { case };
        if inner.get("prog").is_some() {
            let c = SchedCase::from_json(inner);
            if let Some(o) = crate::e3::run_sched(&c) {
                let v = c20_sched_judge(&c, &o, sink);
                sink.record(v, Some(o.trace_hash), &|| sched_case_with_obs(&c, &o));
            }
        } else if inner.get("ops").is_some() {
            replay_stream(&c20_stream_judge, case, sink);
        } else {
            replay_serve(&c20_serve_judge, case, sink);
        }
    }
    fn floors(&self, _: &Ctx) -> Vec<(&'static str, u64)> {
        vec![("post_terminal_polls", 100_000), ("post_end_serve-multipart", 1000), ("post_entity-error_serve-multipart", 1000), ("post_too-short_serve-multipart", 1000), ("post_too-long_serve-exactlen", 1000), ("post_too-short_serve-exactlen", 1000), ("post_end_stream-raw", 1000), ("post_abort_stream-raw", 1000), ("post_abort_stream-gzip", 100), ("post_end_serve-once", 100), ("post_abort_sched-raw", 100)]
    }
    fn assumptions(&self) -> Vec<String> {
        vec!["the harness entity's streams are fused (keep returning None after their end or error), as the statement requires of entities; a second Err after an error is not judged (it is neither data nor a panic)".into()]
    }
}
