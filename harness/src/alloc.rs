//! Counting global allocator with thread-local counters: live bytes = allocated - freed on the
//! calling thread. It only counts and forwards to the system allocator (it remembers no
//! addresses, so it cannot hide leaks from LeakSanitizer, Miri or memcheck).

use std::alloc::{GlobalAlloc, Layout, System};
use std::cell::Cell;

thread_local! {
    static LIVE: Cell<i64> = const { Cell::new(0) };
}

pub struct Counting;

#[inline]
fn add(n: i64) {
    let _ = LIVE.try_with(|l| l.set(l.get() + n));
}

unsafe impl GlobalAlloc for Counting {
    unsafe fn alloc(&self, l: Layout) -> *mut u8 {
        let p = System.alloc(l);
        if !p.is_null() {
            add(l.size() as i64);
        }
        p
    }
    unsafe fn dealloc(&self, p: *mut u8, l: Layout) {
        add(-(l.size() as i64));
        System.dealloc(p, l)
    }
    unsafe fn alloc_zeroed(&self, l: Layout) -> *mut u8 {
        let p = System.alloc_zeroed(l);
        if !p.is_null() {
            add(l.size() as i64);
        }
        p
    }
    unsafe fn realloc(&self, p: *mut u8, l: Layout, new: usize) -> *mut u8 {
        let q = System.realloc(p, l, new);
        if !q.is_null() {
            add(new as i64 - l.size() as i64);
        }
        q
    }
}

/// Live heap bytes attributed to the calling thread (may be negative if it freed memory that
/// another thread allocated).
pub fn live() -> i64 {
    LIVE.try_with(|l| l.get()).unwrap_or(0)
}
