//! C16: `should_gzip` against the RFC 7231 section 5.3.4 model.

use crate::driver::{Ctx, Prop, Sink, Tier, Verdict};
use crate::model::ae;
use crate::util::{bytes_from_json, bytes_to_json, hash64, norm_loc, show, Rng};
use serde_json::{json, Value};

pub fn register(v: &mut Vec<Box<dyn Prop>>) {
    v.push(Box::new(C16));
}

pub struct C16;

const CODINGS: [&str; 6] = ["gzip", "identity", "*", "br", "deflate", "x-gzip"];
const WEIGHTS: [&str; 11] = ["", "0", "0.", "0.0", "0.000", "0.001", "0.5", "0.999", "1", "1.", "1.000"];

/// Element `e` (0..66) rendered in whitespace layout `layout`.
fn element(e: usize, layout: usize, out: &mut Vec<u8>) {
    let c = CODINGS[e / 11];
    let w = WEIGHTS[e % 11];
    out.extend_from_slice(c.as_bytes());
    if !w.is_empty() {
        out.extend_from_slice(match layout {
            0 | 1 => b";q=",
            2 => b" ; q=",
            _ => b";\tq=",
        });
        out.extend_from_slice(w.as_bytes());
    }
}

fn separator(layout: usize) -> &'static [u8] {
    match layout {
        0 => b",",
        1 => b", ",
        2 => b" , ",
        _ => b",\t ",
    }
}

fn call(v: &[u8]) -> Option<Result<bool, String>> {
    let hv = http::HeaderValue::from_bytes(v).ok()?;
    let mut h = http::HeaderMap::new();
    h.insert(http::header::ACCEPT_ENCODING, hv);
    crate::util::add_bystanders(&mut h, hash64(&v));
    Some(crate::util::catch(|| http_serve::should_gzip(&h)))
}

fn bystanders_of(v: &[u8]) -> Vec<&'static str> {
    crate::util::add_bystanders(&mut http::HeaderMap::new(), hash64(&v))
}

pub fn judge_value(v: &[u8], sink: &mut Sink) -> (Verdict, bool) {
    let sel = hash64(&v);
    if sel & 3 != 0 {
        sink.count("values_with_other_request_headers");
        if (sel >> 2) & 3 == 3 {
            sink.count("values_with_range_and_if_range");
        }
    }
    let got = match call(v) {
        None => return (Verdict::DontCare("not a HeaderValue".into()), false),
        Some(Err(p)) => return (Verdict::viol(format!("panic@{}", norm_loc(&p)), format!("should_gzip panicked on {:?}: {}", show(v), p)), false),
        Some(Ok(b)) => b,
    };
    match ae::expect(v) {
        None => {
            sink.count("not_judged_outside_grammar_or_ambiguous");
            (Verdict::Ok, false)
        }
        Some(want) => {
            if want == got {
                (Verdict::Ok, true)
            } else {
                (Verdict::viol(format!("want={}|got={}", want, got), format!("Accept-Encoding {:?} (other request headers present: {:?}): model says {}, should_gzip returned {}", show(v), bystanders_of(v), want, got)), false)
            }
        }
    }
}

fn run_value(v: &[u8], sink: &mut Sink) {
    if !sink.admit() {
        return;
    }
    let (verdict, judged) = judge_value(v, sink);
    if matches!(verdict, Verdict::Ok) {
        if judged && sink.want_sample() {
            sink.ok_enumerated(true);
            sink.push_sample(json!({"accept_encoding": bytes_to_json(v), "should_gzip": ae::expect(v)}));
        } else {
            sink.ok_enumerated(judged);
        }
    } else {
        sink.record(verdict, None, &|| json!({"accept_encoding": bytes_to_json(v)}));
    }
}

fn max_len(ctx: &Ctx) -> usize {
    if ctx.leg.slow() { 2 } else if ctx.tier == Tier::Thorough { 4 } else { 3 }
}

impl Prop for C16 {
    fn id(&self) -> &'static str {
        "C16"
    }
    fn level(&self) -> &'static str {
        "exploration"
    }
    fn rule(&self, ctx: &Ctx) -> String {
        format!("three quarters of the values are evaluated in a HeaderMap that also holds a value-derived subset of 11 other request headers (Range, If-Range, validators, Content-Encoding, TE, Accept, X-Accept-Encoding, ...; counters values_with_other_request_headers / values_with_range_and_if_range), which must not change the answer. exhaustive: all lists of 1..={} elements over 66 elements (codings {{gzip, identity, *, br, deflate, x-gzip}} x weights {{none, 0, 0., 0.0, 0.000, 0.001, 0.5, 0.999, 1, 1., 1.000}}) x 4 whitespace layouts around ',' and ';'; absent / empty header; 16 coding names that merely resemble gzip / identity / * in ten list shapes; lists of 3 .. 5000 filler codings with the deciding element first, last or on both ends; all 1001 x 1001 pairs of qvalues in thousandths for (gzip, identity), (identity, gzip), (gzip, *), (*, identity), in padded and shortest spelling, and inside a four-element list; two- and three-element lists spread over 2 or 3 Accept-Encoding field lines (answer must equal what the first line alone or the comma-joined list gives); plus seeded random and mutated byte strings for the no-panic clause. Every list is a distinct case; non-trivial = grammatical and unambiguous under first/last/max/min-wins for repeated codings, compared with the RFC 7231 5.3.4 model (counted by the enumerator, which never repeats a list)", max_len(ctx))
    }
    fn n_blocks(&self, ctx: &Ctx) -> usize {
        66 * max_len(ctx) + 17 + 12 + 6
    }
    fn exhaustive(&self, _: &Ctx) -> bool {
        true
    }
    fn run_block(&self, b: usize, sink: &mut Sink) {
        let ctx = sink.ctx.clone();
        let ml = max_len(&ctx);
        if b < 66 * ml {
            let first = b % 66;
            let len = b / 66 + 1;
            let rest = len - 1;
            let n = 66u64.pow(rest as u32);
            let mut buf = Vec::with_capacity(128);
            for idx in 0..n {
                for layout in 0..4 {
                    if layout > 0 && len == 1 && WEIGHTS[first % 11].is_empty() {
                        continue; // identical strings
                    }
                    buf.clear();
                    element(first, layout, &mut buf);
                    let mut x = idx;
                    for _ in 0..rest {
                        buf.extend_from_slice(separator(layout));
                        element((x % 66) as usize, layout, &mut buf);
                        x /= 66;
                    }
                    run_value(&buf, sink);
                }
                if sink.stopped() {
                    return;
                }
            }
            return;
        }
        let k = b - 66 * ml;
        if k == 0 {
            // absent and empty
            let r = crate::util::catch(|| http_serve::should_gzip(&http::HeaderMap::new()));
            if sink.admit() {
                let v = match r {
                    Ok(false) => Verdict::Ok,
                    Ok(true) => Verdict::viol("absent-header-true", "should_gzip returned true without an Accept-Encoding header"),
                    Err(p) => Verdict::viol(format!("panic@{}", norm_loc(&p)), p),
                };
                sink.record(v, Some(1), &|| json!({"accept_encoding": null}));
            }
            run_value(b"", sink);
            // long lists: the deciding element far from the front
            for n in [3usize, 14, 15, 16, 17, 31, 32, 33, 63, 64, 65, 100, 255, 256, 257, 1000, 5000] {
                let fillers: Vec<String> = (0..n).map(|i| match i % 4 { 0 => format!("x-c{}", i), 1 => format!("br;q=0.{}", 1 + i % 9), 2 => "deflate".to_string(), _ => format!("zstd;q=0.{:03}", i % 1000) }).collect();
                let mid = fillers.join(", ");
                for v in [
                    format!("*, {}, gzip;q=0", mid),
                    format!("gzip;q=0.5, {}, identity", mid),
                    format!("{}, gzip", mid),
                    format!("{},gzip;q=0.001", fillers.join(",")),
                    format!("identity;q=0.5, {}, gzip;q=0.4", mid),
                    format!("identity;q=0.5, {}, *;q=0.6", mid),
                    format!("{}, *;q=0", mid),
                    format!("gzip, {}, gzip;q=0", mid),
                ] {
                    run_value(v.as_bytes(), sink);
                    sink.count("long_list_values");
                }
            }
            // coding names that merely resemble the three special ones
            for near in ["identity2", "identityx", "identity-v2", "identit", "identityidentity", "gzipp", "gzi", "xgzip", "x-gzipx", "gzip2", "gzip-identity", "**", "*x", "x*", "identity*", "gzip*"] {
                for v in [
                    format!("gzip;q=0.5, {}", near),
                    format!("gzip;q=0.5, identity, {};q=0.1", near),
                    format!("gzip;q=0.5, identity;q=0.1, {}", near),
                    format!("{};q=0, gzip", near),
                    format!("{}, identity;q=0", near),
                    format!("gzip;q=0, {}", near),
                    format!("{};q=1, *;q=0", near),
                    format!("{}", near),
                    format!("identity;q=0.5, {};q=0.9", near),
                    format!("{};q=0.9, *;q=0.1, identity;q=0.5", near),
                ] {
                    run_value(v.as_bytes(), sink);
                    sink.count("near_name_values");
                }
            }
            for v in [&b"GZIP"[..], b"gzip;Q=1", b"gzip;q=1.0000", b"gzip;q=0.1234", b"gzip;q=1.1", b"gzip;q=-1", b"gzip;q=", b"gzip;", b";q=1", b",", b"gzip,,identity", b"gzip;q=1;x=2", b"gzip q=1", b"gzip;q=0.5;q=1", b"identity=q=0, *"] {
                run_value(v, sink);
            }
            return;
        }
        if k >= 17 + 12 {
            // the list spread over several Accept-Encoding field lines. The statement speaks of one
            // value; with several lines an implementation may read the first line only or the lines
            // joined by commas (RFC 7230 3.2.2) - the answer must be what one of the two gives.
            let j = k - 29;
            let mut buf: Vec<Vec<u8>> = Vec::new();
            let step = if ctx.leg.slow() { 13 } else { 1 };
            let mut first = j;
            while first < 66 {
                for second in (0..66).step_by(step) {
                    for third in [None, Some((first * 7 + second * 3) % 66), Some((first + second * 5 + 1) % 66)] {
                        for split in 0..2 {
                            buf.clear();
                            let mut e = Vec::new();
                            element(first, 0, &mut e);
                            buf.push(e);
                            let mut e = Vec::new();
                            element(second, 0, &mut e);
                            if let (Some(t), 0) = (third, split) {
                                // second line carries two elements
                                e.extend_from_slice(b", ");
                                element(t, 0, &mut e);
                                buf.push(e);
                            } else {
                                buf.push(e);
                                if let Some(t) = third {
                                    let mut e = Vec::new();
                                    element(t, 0, &mut e);
                                    buf.push(e);
                                }
                            }
                            if !sink.admit() {
                                continue;
                            }
                            let mut h = http::HeaderMap::new();
                            for line in &buf {
                                h.append(http::header::ACCEPT_ENCODING, http::HeaderValue::from_bytes(line).expect("token list"));
                            }
                            let joined: Vec<u8> = buf.join(&b", "[..]);
                            let desc = || json!({"accept_encoding_lines": buf.iter().map(|l| bytes_to_json(l)).collect::<Vec<_>>()});
                            let got = match crate::util::catch(|| http_serve::should_gzip(&h)) {
                                Ok(g) => g,
                                Err(p) => {
                                    sink.record(Verdict::viol(format!("panic@{}", norm_loc(&p)), p), None, &desc);
                                    continue;
                                }
                            };
                            match (ae::expect(&buf[0]), ae::expect(&joined)) {
                                (Some(a), Some(b2)) if got != a && got != b2 => {
                                    sink.record(Verdict::viol(format!("multi-line|want={}|got={}", a, got), format!("Accept-Encoding lines {:?}: the first line alone gives {}, the joined list gives {}, should_gzip returned {}", buf.iter().map(|l| show(l)).collect::<Vec<_>>(), a, b2, got)), None, &desc);
                                }
                                (Some(_), Some(_)) => {
                                    sink.count("multi_line_values_judged");
                                    sink.ok_enumerated(true);
                                }
                                _ => sink.ok_enumerated(false),
                            }
                        }
                    }
                }
                first += 6;
            }
            return;
        }
        if k >= 17 {
            // every pair of qvalues in thousandths for two codings, in six list shapes
            let j = k - 17;
            let (config, half) = (j % 6, j / 6);
            let q = |t: u32, short: bool| -> String {
                if short {
                    match t {
                        0 => "0".to_string(),
                        1000 => "1".to_string(),
                        _ => format!("0.{:03}", t).trim_end_matches('0').to_string(),
                    }
                } else if t == 1000 {
                    "1.000".to_string()
                } else {
                    format!("0.{:03}", t)
                }
            };
            let step = if ctx.leg.slow() { 97 } else { 1 };
            let (lo, hi) = if half == 0 { (0u32, 500u32) } else { (501, 1000) };
            let mut a = lo;
            while a <= hi {
                let mut b2 = 0u32;
                while b2 <= 1000 {
                    let v = match config {
                        0 => format!("gzip;q={}, identity;q={}", q(a, false), q(b2, false)),
                        1 => format!("identity;q={}, gzip;q={}", q(b2, false), q(a, false)),
                        2 => format!("gzip;q={}, *;q={}", q(a, false), q(b2, false)),
                        3 => format!("*;q={}, identity;q={}", q(a, false), q(b2, false)),
                        4 => format!("gzip;q={},identity;q={}", q(a, true), q(b2, true)),
                        _ => format!("br;q=0.3, gzip;q={}, *;q={}, deflate", q(a, true), q(b2, false)),
                    };
                    run_value(v.as_bytes(), sink);
                    b2 += step;
                }
                if sink.stopped() {
                    return;
                }
                a += step;
            }
            sink.count("qvalue_sweep_blocks");
            return;
        }
        // no-panic clause: random and mutated byte strings
        let mut rng = Rng::from_parts(ctx.seed, &[16, k as u64]);
        let n = if ctx.leg.slow() { 120 } else if ctx.tier == Tier::Thorough { 600_000 } else { 60_000 };
        let mut buf = Vec::new();
        for _ in 0..n {
            buf.clear();
            if rng.chance(1, 3) {
                let l = rng.below(40) as usize;
                for _ in 0..l {
                    buf.push(match rng.below(6) {
                        0 => b'\t',
                        1 => rng.range(0x80, 0xff) as u8,
                        2 => *rng.pick(b";,=q.01* "),
                        _ => rng.range(0x20, 0x7e) as u8,
                    });
                }
            } else {
                let l = rng.range(1, 5);
                let layout = rng.below(4) as usize;
                for i in 0..l {
                    if i > 0 {
                        buf.extend_from_slice(separator(layout));
                    }
                    element(rng.below(66) as usize, layout, &mut buf);
                }
                for _ in 0..rng.below(4) {
                    let pos = rng.below(buf.len() as u64 + 1) as usize;
                    match rng.below(3) {
                        0 if !buf.is_empty() => {
                            buf.remove(pos.min(buf.len() - 1));
                        }
                        1 => buf.insert(pos, *rng.pick(b";,=q.0123456789* \t")),
                        _ => buf.insert(pos, rng.range(0x21, 0xff) as u8),
                    }
                }
            }
            sink.count("random_or_mutated_values");
            run_value(&buf, sink);
        }
    }
    fn replay(&self, case: &Value, sink: &mut Sink) {
        let c = if case.get("case").is_some() { &case["case"] } else { case };
        let v = bytes_from_json(&c["accept_encoding"]);
        let (verdict, judged) = judge_value(&v, sink);
        sink.record(verdict, if judged { Some(hash64(&v)) } else { None }, &|| json!({"accept_encoding": bytes_to_json(&v)}));
    }
    fn floors(&self, _: &Ctx) -> Vec<(&'static str, u64)> {
        vec![("random_or_mutated_values", 100_000), ("qvalue_sweep_blocks", 12), ("multi_line_values_judged", 10_000)]
    }
    fn assumptions(&self) -> Vec<String> {
        vec!["not judged (property silent): lists naming gzip / identity / * twice with weights for which first-, last-, max- and min-wins disagree; coding names or 'Q=' in upper case; values outside the grammar (only the no-panic clause applies)".into()]
    }
}
