//! A deliberately non-contiguous `bytes::Buf`: the crate's `Entity::Data` "may be something more
//! exotic" than `Bytes`. `remaining()` is larger than `chunk().len()`, so any accounting that
//! looks at the first segment only would be visible.

use bytes::{Buf, Bytes};
use std::collections::VecDeque;

#[derive(Debug, Clone, Default)]
pub struct SegBuf {
    segs: VecDeque<Bytes>,
}

impl SegBuf {
    /// Splits `v` into up to three segments (1 byte, the middle, the last 2 bytes).
    pub fn split(v: Vec<u8>) -> SegBuf {
        let b = Bytes::from(v);
        let mut segs = VecDeque::new();
        let n = b.len();
        if n >= 4 {
            segs.push_back(b.slice(0..1));
            segs.push_back(b.slice(1..n - 2));
            segs.push_back(b.slice(n - 2..n));
        } else if n >= 2 {
            segs.push_back(b.slice(0..1));
            segs.push_back(b.slice(1..n));
        } else if n == 1 {
            segs.push_back(b);
        }
        SegBuf { segs }
    }
}

impl From<Vec<u8>> for SegBuf {
    fn from(v: Vec<u8>) -> Self {
        SegBuf::split(v)
    }
}

impl From<&'static [u8]> for SegBuf {
    fn from(v: &'static [u8]) -> Self {
        SegBuf::split(v.to_vec())
    }
}

impl Buf for SegBuf {
    fn remaining(&self) -> usize {
        self.segs.iter().map(|s| s.len()).sum()
    }
    fn chunk(&self) -> &[u8] {
        self.segs.front().map(|s| &s[..]).unwrap_or(&[])
    }
    fn advance(&mut self, mut cnt: usize) {
        while cnt > 0 {
            let front = self.segs.front_mut().expect("advance past the end");
            if cnt >= front.len() {
                cnt -= front.len();
                self.segs.pop_front();
            } else {
                front.advance(cnt);
                cnt = 0;
            }
        }
        while self.segs.front().is_some_and(|s| s.is_empty()) {
            self.segs.pop_front();
        }
    }
}
