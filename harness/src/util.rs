//! Small shared helpers: PRNG, hashing, JSON encoding of byte strings, panic capture.

use serde_json::{json, Value};
use std::cell::RefCell;
use std::hash::{Hash, Hasher};

/// SplitMix64: tiny, seedable, good enough for workload generation.
#[derive(Clone)]
pub struct Rng(pub u64);

impl Rng {
    pub fn new(seed: u64) -> Self {
        Rng(seed ^ 0x9E37_79B9_7F4A_7C15)
    }
    pub fn from_parts(seed: u64, parts: &[u64]) -> Self {
        let mut r = Rng::new(seed);
        for p in parts {
            r.0 = r.next().wrapping_add(p.wrapping_mul(0xBF58_476D_1CE4_E5B9));
        }
        r
    }
    #[allow(clippy::should_implement_trait)]
    pub fn next(&mut self) -> u64 {
        self.0 = self.0.wrapping_add(0x9E37_79B9_7F4A_7C15);
        let mut z = self.0;
        z = (z ^ (z >> 30)).wrapping_mul(0xBF58_476D_1CE4_E5B9);
        z = (z ^ (z >> 27)).wrapping_mul(0x94D0_49BB_1331_11EB);
        z ^ (z >> 31)
    }
    /// Uniform in 0..n (n > 0).
    pub fn below(&mut self, n: u64) -> u64 {
        debug_assert!(n > 0);
        self.next() % n
    }
    pub fn range(&mut self, lo: u64, hi_incl: u64) -> u64 {
        lo + self.below(hi_incl - lo + 1)
    }
    pub fn chance(&mut self, num: u64, den: u64) -> bool {
        self.below(den) < num
    }
    pub fn pick<'a, T>(&mut self, xs: &'a [T]) -> &'a T {
        &xs[self.below(xs.len() as u64) as usize]
    }
}

pub fn hash64<T: Hash>(t: &T) -> u64 {
    let mut h = Fnv(0xcbf2_9ce4_8422_2325);
    t.hash(&mut h);
    h.finish()
}

/// FNV-1a with a final avalanche; deterministic across runs (unlike `RandomState`).
pub struct Fnv(pub u64);
impl Hasher for Fnv {
    fn finish(&self) -> u64 {
        let mut z = self.0;
        z = (z ^ (z >> 30)).wrapping_mul(0xBF58_476D_1CE4_E5B9);
        z = (z ^ (z >> 27)).wrapping_mul(0x94D0_49BB_1331_11EB);
        z ^ (z >> 31)
    }
    fn write(&mut self, bytes: &[u8]) {
        for b in bytes {
            self.0 ^= *b as u64;
            self.0 = self.0.wrapping_mul(0x0000_0100_0000_01B3);
        }
    }
}

/// Byte strings in JSON: printable ASCII as a plain string, anything else as {"hex": ".."}.
pub fn bytes_to_json(b: &[u8]) -> Value {
    if b.iter().all(|c| (0x20..0x7f).contains(c)) {
        Value::String(String::from_utf8(b.to_vec()).unwrap())
    } else {
        let mut s = String::with_capacity(b.len() * 2);
        for c in b {
            s.push_str(&format!("{:02x}", c));
        }
        json!({ "hex": s })
    }
}

pub fn bytes_from_json(v: &Value) -> Vec<u8> {
    match v {
        Value::String(s) => s.as_bytes().to_vec(),
        Value::Object(o) => {
            let h = o.get("hex").and_then(|h| h.as_str()).unwrap_or("");
            (0..h.len() / 2)
                .map(|i| u8::from_str_radix(&h[2 * i..2 * i + 2], 16).unwrap_or(0))
                .collect()
        }
        _ => Vec::new(),
    }
}

/// Short printable rendering for messages.
pub fn show(b: &[u8]) -> String {
    let mut s = String::new();
    for &c in b.iter().take(200) {
        if (0x20..0x7f).contains(&c) && c != b'\\' {
            s.push(c as char);
        } else {
            s.push_str(&format!("\\x{:02x}", c));
        }
    }
    if b.len() > 200 {
        s.push_str(&format!("...(+{} bytes)", b.len() - 200));
    }
    s
}

pub fn u64_to_json(n: u64) -> Value {
    // Numbers above 2^53 are kept as strings so that Python/JSON tools do not round them.
    if n <= (1 << 53) {
        json!(n)
    } else {
        Value::String(n.to_string())
    }
}

pub fn u64_from_json(v: &Value) -> u64 {
    match v {
        Value::Number(n) => n.as_u64().unwrap_or(0),
        Value::String(s) => s.parse().unwrap_or(0),
        _ => 0,
    }
}

thread_local! {
    static LAST_PANIC: RefCell<Option<String>> = const { RefCell::new(None) };
}

/// Installs a panic hook that records location + message in a thread-local instead of printing.
pub fn install_quiet_panic_hook() {
    std::panic::set_hook(Box::new(|info| {
        let loc = info
            .location()
            .map(|l| format!("{}:{}", l.file(), l.line()))
            .unwrap_or_else(|| "?".into());
        let msg = if let Some(s) = info.payload().downcast_ref::<&str>() {
            s.to_string()
        } else if let Some(s) = info.payload().downcast_ref::<String>() {
            s.clone()
        } else {
            "<non-string panic>".to_string()
        };
        let text = format!("{} {}", loc, msg);
        // a panic located in the harness's own sources (relative path) is a harness bug: always show it
        if std::env::var_os("HSV_PANIC_STDERR").is_some() || loc.starts_with("src/") {
            eprintln!("panic: {}", text);
        }
        let _ = LAST_PANIC.try_with(|p| *p.borrow_mut() = Some(text));
    }));
}

pub fn take_last_panic() -> String {
    LAST_PANIC
        .try_with(|p| p.borrow_mut().take())
        .ok()
        .flatten()
        .unwrap_or_else(|| "<panic>".into())
}

/// Runs `f`, turning a panic into `Err(location + message)`.
pub fn catch<R>(f: impl FnOnce() -> R) -> Result<R, String> {
    match std::panic::catch_unwind(std::panic::AssertUnwindSafe(f)) {
        Ok(r) => Ok(r),
        Err(_) => Err(take_last_panic()),
    }
}

/// Strip the absolute prefix of repo paths in panic locations so signatures are stable.
pub fn norm_loc(s: &str) -> String {
    // keep "src/x.rs:123 message-start"
    let s = s.replace("/repo/", "");
    let mut out = String::new();
    for (i, w) in s.split_whitespace().enumerate() {
        if i >= 6 {
            break;
        }
        if i > 0 {
            out.push(' ');
        }
        out.push_str(w);
    }
    out
}

type Cleanup = Box<dyn FnOnce() + Send>;
static CLEANUPS: std::sync::Mutex<Vec<Cleanup>> = std::sync::Mutex::new(Vec::new());

/// Directory to remove when the process finishes (for fixtures held in statics).
pub fn register_cleanup(p: std::path::PathBuf) {
    register_cleanup_fn(Box::new(move || {
        let _ = std::fs::remove_dir_all(p);
    }));
}

pub fn register_cleanup_fn(f: Cleanup) {
    CLEANUPS.lock().unwrap().push(f);
}

pub fn run_cleanups() {
    let v: Vec<Cleanup> = CLEANUPS.lock().unwrap().drain(..).collect();
    for f in v.into_iter().rev() {
        f();
    }
}

/// A lazily created multi-thread tokio runtime that is shut down by `run_cleanups` (Miri reports
/// threads that outlive main).
pub struct LazyRt {
    slot: std::sync::RwLock<Option<tokio::runtime::Runtime>>,
    workers: usize,
}

impl LazyRt {
    pub const fn new(workers: usize) -> LazyRt {
        LazyRt { slot: std::sync::RwLock::new(None), workers }
    }
    pub fn with<R>(&'static self, f: impl FnOnce(&tokio::runtime::Runtime) -> R) -> R {
        {
            let g = self.slot.read().unwrap_or_else(|p| p.into_inner());
            if let Some(rt) = g.as_ref() {
                return f(rt);
            }
        }
        {
            let mut g = self.slot.write().unwrap_or_else(|p| p.into_inner());
            if g.is_none() {
                *g = Some(tokio::runtime::Builder::new_multi_thread().worker_threads(self.workers).max_blocking_threads(8).build().expect("tokio runtime"));
                register_cleanup_fn(Box::new(move || {
                    if let Some(rt) = self.slot.write().unwrap_or_else(|p| p.into_inner()).take() {
                        drop(rt); // joins the worker threads
                    }
                }));
            }
        }
        let g = self.slot.read().unwrap_or_else(|p| p.into_inner());
        f(g.as_ref().expect("runtime present"))
    }
}

/// Holds a value of the code under test; if the thread is unwinding when it goes out of scope
/// the value is leaked instead of dropped (its destructor may panic again - e.g. on a poisoned
/// lock - and a panic inside a destructor during unwinding aborts the process).
pub struct LeakOnPanic<T>(pub Option<T>);

impl<T> LeakOnPanic<T> {
    pub fn new(t: T) -> Self {
        LeakOnPanic(Some(t))
    }
    pub fn get(&mut self) -> &mut T {
        self.0.as_mut().expect("present")
    }
    pub fn take(&mut self) -> Option<T> {
        self.0.take()
    }
}

impl<T> Drop for LeakOnPanic<T> {
    fn drop(&mut self) {
        if std::thread::panicking() {
            std::mem::forget(self.0.take());
        }
    }
}

/// Request headers that belong to neighbouring concerns (ranges, validators, other negotiation).
/// `should_gzip` and `FsDir::get` are functions of Accept-Encoding alone; a deterministic,
/// case-derived subset of these rides along in three quarters of the C16 / C19 cases.
pub const BYSTANDERS: [(&str, &str); 11] = [
    ("range", "bytes=0-9"),
    ("if-range", "\"v1\""),
    ("if-none-match", "*"),
    ("if-match", "\"a\""),
    ("if-modified-since", "Thu, 01 Jan 2015 00:00:00 GMT"),
    ("content-encoding", "gzip"),
    ("te", "gzip;q=0"),
    ("accept", "*/*;q=0"),
    ("x-accept-encoding", "gzip;q=0"),
    ("connection", "close"),
    ("if-unmodified-since", "Thu, 01 Jan 2015 00:00:00 GMT"),
];

pub fn add_bystanders(h: &mut http::HeaderMap, sel: u64) -> Vec<&'static str> {
    let mut names = Vec::new();
    if sel & 3 == 0 {
        return names;
    }
    for (i, (n, v)) in BYSTANDERS.iter().enumerate() {
        if (sel >> (2 + i)) & 1 == 1 {
            h.append(http::header::HeaderName::from_static(n), http::HeaderValue::from_static(v));
            names.push(*n);
        }
    }
    names
}
