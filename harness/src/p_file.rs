//! C18: `ChunkedReadFile` on real temporary files, on a multi-thread tokio runtime.

use crate::bodymon::{drain, Terminal};
use crate::driver::{Ctx, Prop, Sink, Tier, Verdict};
use crate::ent::{content, BoxError};
use crate::model::range::{parse_content_range, ContentRange};
use crate::util::{hash64, norm_loc, show};
use bytes::Bytes;
use http_serve::{ChunkedReadFile, Entity};
use serde_json::{json, Value};
use std::fs::File;
use std::io::Write;
use std::path::{Path, PathBuf};
use std::sync::atomic::{AtomicU64, Ordering};
use std::sync::RwLock;
use std::task::{Context, Poll};

type Crf = ChunkedReadFile<Bytes, BoxError>;

pub fn register(v: &mut Vec<Box<dyn Prop>>) {
    v.push(Box::new(C18));
}

static RT: crate::util::LazyRt = crate::util::LazyRt::new(4);

/// Runs `f` on a worker thread of the multi-thread runtime (where `block_in_place` is legal).
fn on_rt<R: Send + 'static>(f: impl FnOnce() -> R + Send + 'static) -> Result<R, String> {
    RT.with(|rt| rt.block_on(async { tokio::spawn(async move { crate::util::catch(f) }).await })).map_err(|e| format!("task failed: {}", e)).and_then(|r| r)
}

/// Read-cap hook is process-wide: capped cases take the write side.
static CAP_LOCK: RwLock<()> = RwLock::new(());

static DIR_CTR: AtomicU64 = AtomicU64::new(0);

pub struct TempDir(pub PathBuf);
/// Removes fixture directories left behind by harness processes that were killed.
fn sweep_stale_temp_dirs() {
    static ONCE: std::sync::Once = std::sync::Once::new();
    ONCE.call_once(|| {
        if let Ok(rd) = std::fs::read_dir(std::env::temp_dir()) {
            for e in rd.flatten() {
                let name = e.file_name().to_string_lossy().to_string();
                let parts: Vec<&str> = name.split('-').collect();
                if parts.len() == 4 && parts[0] == "hsv" {
                    if let Ok(pid) = parts[2].parse::<u32>() {
                        if pid != std::process::id() && !Path::new(&format!("/proc/{}", pid)).exists() {
                            let _ = std::fs::remove_dir_all(e.path());
                        }
                    }
                }
            }
        }
    });
}

impl TempDir {
    pub fn new(tag: &str) -> TempDir {
        sweep_stale_temp_dirs();
        let p = std::env::temp_dir().join(format!("hsv-{}-{}-{}", tag, std::process::id(), DIR_CTR.fetch_add(1, Ordering::SeqCst)));
        let _ = std::fs::remove_dir_all(&p);
        std::fs::create_dir_all(&p).expect("create temp dir");
        TempDir(p)
    }
}
impl Drop for TempDir {
    fn drop(&mut self) {
        let _ = std::fs::remove_dir_all(&self.0);
    }
}

fn make_file(p: &Path, size: u64) {
    let mut f = File::create(p).expect("create file");
    f.write_all(&content(0, size as usize)).expect("write file");
    f.sync_all().ok();
}

#[derive(Clone, Debug, PartialEq, Eq, Hash)]
pub enum FileCase {
    /// stream get_range(a..b) of a file of `size` bytes with read cap `cap` (0 = none);
    /// truncate to `trunc.1` bytes after `trunc.0` polls
    Read { size: u64, a: u64, b: u64, cap: usize, trunc: Option<(u32, u64)>, via_serve: bool },
    Meta { size: u64 },
    /// ONE entity: `reads` complete streams of the whole file (plus a partial one), then the file
    /// is truncated to `trunc_to` bytes, then streamed again
    Reuse { size: u64, reads: u32, trunc_to: u64 },
    /// ONE entity, a sequence of ranges starting with one that ends at the end of the file, each
    /// compared with the file; then one multi-range request through serve() whose first part is
    /// the tail of the file
    RangeSeq { size: u64, seed: u64 },
    NonRegular,
    /// a sparse file of `size` bytes (zeros with a marker byte every 1 MiB - 1): long streams of
    /// many consecutive full reads
    BigSparse { size: u64, a: u64, b: u64 },
    /// `tasks` tasks stream different unaligned ranges of ONE shared entity at the same time
    Concurrent { size: u64, tasks: u32, per_task: u32, seed: u64 },
}

impl FileCase {
    pub fn to_json(&self) -> Value {
        match self {
            FileCase::Read { size, a, b, cap, trunc, via_serve } => json!({"read": {"size": size, "a": a, "b": b, "cap": cap, "trunc": trunc.map(|t| json!([t.0, t.1])), "via_serve": via_serve}}),
            FileCase::Meta { size } => json!({"meta": {"size": size}}),
            FileCase::Reuse { size, reads, trunc_to } => json!({"reuse": {"size": size, "reads": reads, "trunc_to": trunc_to}}),
            FileCase::RangeSeq { size, seed } => json!({"range_seq": {"size": size, "seed": seed}}),
            FileCase::NonRegular => json!("non_regular"),
            FileCase::BigSparse { size, a, b } => json!({"big_sparse": {"size": size, "a": a, "b": b}}),
            FileCase::Concurrent { size, tasks, per_task, seed } => json!({"concurrent": {"size": size, "tasks": tasks, "per_task": per_task, "seed": seed}}),
        }
    }
    pub fn from_json(v: &Value) -> FileCase {
        if let Some(r) = v.get("read") {
            FileCase::Read {
                size: r["size"].as_u64().unwrap_or(0),
                a: r["a"].as_u64().unwrap_or(0),
                b: r["b"].as_u64().unwrap_or(0),
                cap: r["cap"].as_u64().unwrap_or(0) as usize,
                trunc: r["trunc"].as_array().map(|t| (t[0].as_u64().unwrap_or(0) as u32, t[1].as_u64().unwrap_or(0))),
                via_serve: r["via_serve"].as_bool().unwrap_or(false),
            }
        } else if let Some(m) = v.get("concurrent") {
            FileCase::Concurrent { size: m["size"].as_u64().unwrap_or(0), tasks: m["tasks"].as_u64().unwrap_or(2) as u32, per_task: m["per_task"].as_u64().unwrap_or(1) as u32, seed: m["seed"].as_u64().unwrap_or(0) }
        } else if let Some(m) = v.get("big_sparse") {
            FileCase::BigSparse { size: m["size"].as_u64().unwrap_or(0), a: m["a"].as_u64().unwrap_or(0), b: m["b"].as_u64().unwrap_or(0) }
        } else if let Some(m) = v.get("range_seq") {
            FileCase::RangeSeq { size: m["size"].as_u64().unwrap_or(0), seed: m["seed"].as_u64().unwrap_or(0) }
        } else if let Some(m) = v.get("reuse") {
            FileCase::Reuse { size: m["size"].as_u64().unwrap_or(0), reads: m["reads"].as_u64().unwrap_or(1) as u32, trunc_to: m["trunc_to"].as_u64().unwrap_or(0) }
        } else if let Some(m) = v.get("meta") {
            FileCase::Meta { size: m["size"].as_u64().unwrap_or(0) }
        } else {
            FileCase::NonRegular
        }
    }
}

struct ReadObs {
    chunks: Vec<usize>,
    data: Vec<u8>,
    /// "end", "err:<kind>", "no-terminal" (poll budget exhausted)
    terminal: String,
    ready_polls: u64,
}

fn stream_read(crf: &Crf, a: u64, b: u64, trunc: Option<(u32, u64)>, path: &Path) -> ReadObs {
    let mut s = crf.get_range(a..b);
    let w = futures_noop_waker();
    let mut cx = Context::from_waker(&w);
    let mut o = ReadObs { chunks: vec![], data: vec![], terminal: "no-terminal".into(), ready_polls: 0 };
    let budget = (b - a) + 8;
    let mut polls = 0u32;
    loop {
        if let Some((k, t)) = trunc {
            if k == polls {
                File::options().write(true).open(path).and_then(|f| f.set_len(t)).expect("truncate");
            }
        }
        polls += 1;
        match s.as_mut().poll_next(&mut cx) {
            Poll::Pending => {
                if polls as u64 > budget * 4 {
                    break;
                }
            }
            Poll::Ready(None) => {
                o.terminal = "end".into();
                break;
            }
            Poll::Ready(Some(Err(e))) => {
                let kind = e.downcast_ref::<std::io::Error>().map(|e| format!("{:?}", e.kind())).unwrap_or_else(|| "other".into());
                o.terminal = format!("err:{}", kind);
                break;
            }
            Poll::Ready(Some(Ok(d))) => {
                o.ready_polls += 1;
                o.chunks.push(d.len());
                o.data.extend_from_slice(&d);
                if o.ready_polls > budget {
                    break;
                }
            }
        }
    }
    o
}

fn futures_noop_waker() -> std::task::Waker {
    std::task::Waker::from(std::sync::Arc::new(crate::bodymon::CountWaker(AtomicU64::new(0))))
}

fn run_read(size: u64, a: u64, b: u64, cap: usize, trunc: Option<(u32, u64)>, via_serve: bool, sink: &mut Sink) -> (Verdict, Option<u64>, Value) {
    let case = FileCase::Read { size, a, b, cap, trunc, via_serve };
    let desc = case.to_json();
    let dir = TempDir::new("c18");
    let path = dir.0.join("f");
    make_file(&path, size);
    let _guard_r;
    let _guard_w;
    if cap == 0 {
        _guard_r = Some(CAP_LOCK.read().unwrap_or_else(|p| p.into_inner()));
        _guard_w = None;
        http_serve::verif_hooks::set_read_cap(usize::MAX);
    } else {
        _guard_w = Some(CAP_LOCK.write().unwrap_or_else(|p| p.into_inner()));
        _guard_r = None;
        http_serve::verif_hooks::set_read_cap(cap);
    }
    let p2 = path.clone();
    let r = on_rt(move || {
        let f = File::open(&p2).expect("open");
        let crf = Crf::new(f, http::HeaderMap::new()).map_err(|e| e.to_string())?;
        if !via_serve {
            return Ok::<_, String>((stream_read(&crf, a, b, trunc, &p2), None));
        }
        // through serve(): a-b as a Range header (b exclusive -> last = b-1)
        let req = http::Request::builder().header("range", format!("bytes={}-{}", a, b - 1)).body(()).unwrap();
        if let Some((0, t)) = trunc {
            File::options().write(true).open(&p2).and_then(|f| f.set_len(t)).expect("truncate");
        }
        let resp = http_serve::serve(crf, &req);
        let (parts, body) = resp.into_parts();
        let d = drain(body, u64::MAX, 0); // no polls after the end: unfold-based entity streams are not fused (outside C20's proviso)
        let o = ReadObs {
            chunks: d.steps.iter().filter_map(|s| if let crate::bodymon::Ev::Data(n) = s.ev { Some(n) } else { None }).collect(),
            data: d.data.clone(),
            terminal: match &d.terminal {
                Terminal::End => "end".into(),
                Terminal::Err(e) => format!("err:{}", if e.contains("no bytes beyond") { "UnexpectedEof" } else { "other" }),
                Terminal::Panic(p) => format!("panic:{}", p),
                _ => "no-terminal".into(),
            },
            ready_polls: d.steps.len() as u64,
        };
        let cr = parts.headers.get("content-range").map(|v| v.as_bytes().to_vec());
        Ok((o, Some((parts.status.as_u16(), cr))))
    });
    http_serve::verif_hooks::set_read_cap(usize::MAX);
    let (o, served) = match r {
        Err(p) => return (Verdict::viol(format!("panic@{}", norm_loc(&p)), format!("panicked: {}", p)), None, desc),
        Ok(Err(e)) => return (Verdict::viol("construction-failed", format!("ChunkedReadFile::new failed on a regular file: {}", e)), None, desc),
        Ok(Ok(x)) => x,
    };
    let mode = if via_serve { "serve" } else { "stream" };
    if let Some((status, cr)) = &served {
        let want = ContentRange::Range(a, b - 1, size);
        if *status != 206 || cr.as_deref().and_then(parse_content_range) != Some(want) {
            return (Verdict::viol("serve-status", format!("serve over the file answered {} {:?}", status, cr.as_deref().map(show))), None, desc);
        }
    }
    let want = content(a, (b - a) as usize);
    let observed = json!({"chunks": o.chunks.iter().take(12).collect::<Vec<_>>(), "n_chunks": o.chunks.len(), "bytes": o.data.len(), "terminal": o.terminal});
    let desc = json!({"case": desc, "observed": observed});
    if o.chunks.iter().any(|c| *c == 0) && !(via_serve && a == b) {
        return (Verdict::viol(format!("empty-chunk|{}", mode), "the stream yielded an empty chunk"), None, desc);
    }
    if !want.starts_with(&o.data) {
        let i = o.data.iter().zip(want.iter()).position(|(x, y)| x != y).unwrap_or(want.len());
        return (Verdict::viol(format!("wrong-bytes|{}", mode), format!("byte {} of the stream differs from file byte {} (or the stream is longer than the range)", i, a + i as u64)), None, desc);
    }
    if o.terminal.starts_with("panic") {
        return (Verdict::viol(format!("panic|{}", mode), o.terminal.clone()), None, desc);
    }
    let truncated_below_end = trunc.is_some_and(|(_, t)| t < b);
    if o.terminal == "end" {
        if o.data.len() as u64 != b - a {
            return (
                Verdict::viol(format!("clean-end-short|{}|{}", mode, if truncated_below_end { "truncated" } else { "intact" }), format!("stream ended cleanly after {} of {} bytes", o.data.len(), b - a)),
                None,
                desc,
            );
        }
    } else if o.terminal == "no-terminal" {
        return (
            Verdict::viol(format!("no-terminal-within-bound|{}|{}", mode, if truncated_below_end { "truncated" } else { "intact" }), format!("{} ready polls for a {}-byte range without end or error", o.ready_polls, b - a)),
            None,
            desc,
        );
    } else if !truncated_below_end {
        return (Verdict::viol(format!("error-on-intact-file|{}", mode), format!("stream failed with {} although the file still covers the range", o.terminal)), None, desc);
    }
    if truncated_below_end {
        sink.count(if o.terminal == "end" { "truncated_but_already_read" } else { "truncation_reported_as_error" });
    } else {
        sink.count("ranges_verified");
        sink.add("bytes_verified", o.data.len() as u64);
    }
    if o.chunks.len() > 1 {
        sink.count("multi_chunk_streams");
    }
    if cap != 0 {
        sink.count("short_read_injected");
    }
    (Verdict::Ok, Some(hash64(&case)), desc)
}

static RT_WIDE: crate::util::LazyRt = crate::util::LazyRt::new(8);

fn run_concurrent(size: u64, tasks: u32, per_task: u32, seed: u64, sink: &mut Sink) -> (Verdict, Option<u64>, Value) {
    let case = FileCase::Concurrent { size, tasks, per_task, seed };
    let desc = case.to_json();
    let dir = TempDir::new("c18c");
    let path = dir.0.join("shared");
    make_file(&path, size);
    let _g = CAP_LOCK.read().unwrap_or_else(|p| p.into_inner());
    http_serve::verif_hooks::set_read_cap(usize::MAX);
    let crf = match File::open(&path).map_err(|e| e.to_string()).and_then(|f| Crf::new(f, http::HeaderMap::new()).map_err(|e| e.to_string())) {
        Ok(c) => std::sync::Arc::new(c),
        Err(e) => return (Verdict::DontCare(format!("setup failed: {}", e)), None, desc),
    };
    // each task: several ranges; returns the first problem it saw
    let results: Vec<Result<Option<String>, String>> = RT_WIDE.with(|rt| {
        rt.block_on(async {
            let mut hs = Vec::new();
            for t in 0..tasks {
                let crf = crf.clone();
                hs.push(tokio::spawn(async move {
                    crate::util::catch(move || {
                        let mut rng = crate::util::Rng::from_parts(seed, &[t as u64]);
                        let w = futures_noop_waker();
                        let mut cx = Context::from_waker(&w);
                        for _ in 0..per_task {
                            let a = rng.below(size - 1);
                            let e = (a + 1 + rng.below(300_000)).min(size);
                            let mut s = crf.get_range(a..e);
                            let mut pos = a;
                            loop {
                                match s.as_mut().poll_next(&mut cx) {
                                    Poll::Pending => continue,
                                    Poll::Ready(None) => break,
                                    Poll::Ready(Some(Err(er))) => return Some(format!("range {}..{}: error {} at offset {}", a, e, er, pos)),
                                    Poll::Ready(Some(Ok(d))) => {
                                        if let Some(i) = d.iter().enumerate().position(|(i, b)| *b != crate::ent::content_byte(pos + i as u64)) {
                                            return Some(format!("range {}..{}: byte at file offset {} is wrong (another stream's data?)", a, e, pos + i as u64));
                                        }
                                        pos += d.len() as u64;
                                    }
                                }
                            }
                            if pos != e {
                                return Some(format!("range {}..{}: ended at {}", a, e, pos));
                            }
                        }
                        None
                    })
                }));
            }
            let mut out = Vec::new();
            for h in hs {
                out.push(h.await.unwrap_or_else(|e| Err(format!("task failed: {}", e))));
            }
            out
        })
    });
    for r in results {
        match r {
            Err(p) => return (Verdict::viol(format!("panic|concurrent@{}", norm_loc(&p)), p), None, desc),
            Ok(Some(m)) => return (Verdict::viol("wrong-bytes|concurrent-streams", format!("{} tasks streaming one shared entity: {}", tasks, m)), None, desc),
            Ok(None) => {}
        }
    }
    sink.count("concurrent_shared_entity_runs");
    sink.add("concurrent_streams_verified", (tasks * per_task) as u64);
    (Verdict::Ok, Some(hash64(&case)), desc)
}

const MARK_EVERY: u64 = (1 << 20) - 1;

fn run_big_sparse(size: u64, a: u64, b: u64, sink: &mut Sink) -> (Verdict, Option<u64>, Value) {
    use std::os::unix::fs::FileExt;
    let case = FileCase::BigSparse { size, a, b };
    let desc = case.to_json();
    let dir = TempDir::new("c18s");
    let path = dir.0.join("sparse");
    {
        let f = File::create(&path).expect("create");
        f.set_len(size).expect("set_len");
        let mut off = MARK_EVERY;
        while off < size {
            f.write_at(&[(off / MARK_EVERY) as u8 | 1], off).expect("marker");
            off += MARK_EVERY;
        }
    }
    let _g = CAP_LOCK.read().unwrap_or_else(|p| p.into_inner());
    http_serve::verif_hooks::set_read_cap(usize::MAX);
    let p2 = path.clone();
    let r = on_rt(move || -> Result<(u64, u64, String, Option<String>), String> {
        let crf = Crf::new(File::open(&p2).map_err(|e| e.to_string())?, http::HeaderMap::new()).map_err(|e| e.to_string())?;
        let mut s = crf.get_range(a..b);
        let w = futures_noop_waker();
        let mut cx = Context::from_waker(&w);
        let (mut pos, mut chunks) = (a, 0u64);
        let mut bad: Option<String> = None;
        let terminal;
        loop {
            match s.as_mut().poll_next(&mut cx) {
                Poll::Pending => continue,
                Poll::Ready(None) => {
                    terminal = "end".to_string();
                    break;
                }
                Poll::Ready(Some(Err(e))) => {
                    terminal = format!("err:{}", e);
                    break;
                }
                Poll::Ready(Some(Ok(d))) => {
                    chunks += 1;
                    if d.is_empty() {
                        bad.get_or_insert_with(|| format!("empty chunk at offset {}", pos));
                    }
                    if bad.is_none() {
                        for (i, byte) in d.iter().enumerate() {
                            let off = pos + i as u64;
                            let want = if off % MARK_EVERY == 0 && off > 0 { (off / MARK_EVERY) as u8 | 1 } else { 0 };
                            if *byte != want {
                                bad = Some(format!("byte at file offset {} is {:#x}, expected {:#x}", off, byte, want));
                                break;
                            }
                        }
                    }
                    pos += d.len() as u64;
                    if pos > b + (1 << 20) || chunks > (b - a) + 8 {
                        terminal = "overrun".to_string();
                        break;
                    }
                }
            }
        }
        Ok((pos - a, chunks, terminal, bad))
    });
    match r {
        Err(p) => (Verdict::viol(format!("panic@{}", norm_loc(&p)), p), None, desc),
        Ok(Err(e)) => (Verdict::DontCare(format!("setup failed: {}", e)), None, desc),
        Ok(Ok((got, chunks, terminal, bad))) => {
            let desc = json!({"case": desc, "observed": {"bytes": got, "chunks": chunks, "terminal": terminal}});
            if let Some(m) = bad {
                return (Verdict::viol("wrong-bytes|big-stream", m), None, desc);
            }
            if terminal != "end" || got != b - a {
                return (Verdict::viol(format!("big-stream-{}", terminal.split(':').next().unwrap_or("")), format!("streaming {}..{} of an intact {}-byte file: {} after {} bytes in {} chunks", a, b, size, terminal, got, chunks)), None, desc);
            }
            sink.count("big_streams_verified");
            sink.add("bytes_verified", got);
            sink.max("max_consecutive_full_reads", chunks);
            (Verdict::Ok, Some(hash64(&case)), desc)
        }
    }
}

fn etag_ok(e: &[u8]) -> bool {
    e.len() >= 2 && e[0] == b'"' && e[e.len() - 1] == b'"' && e[1..e.len() - 1].iter().all(|c| *c == 0x21 || (0x23..=0x7e).contains(c) || *c >= 0x80)
}

fn run_meta(size: u64, sink: &mut Sink) -> (Verdict, Option<u64>, Value) {
    let desc = FileCase::Meta { size }.to_json();
    let dir = TempDir::new("c18m");
    let path = dir.0.join("f");
    make_file(&path, size);
    let link = dir.0.join("f-link");
    let fail = |sig: &str, msg: String| (Verdict::viol(sig.to_string(), msg), None, desc.clone());
    let open = |p: &Path| -> Result<Crf, String> {
        let f = File::open(p).map_err(|e| e.to_string())?;
        Crf::new(f, http::HeaderMap::new()).map_err(|e| e.to_string())
    };
    let r = crate::util::catch(|| -> Result<Option<(String, String)>, String> {
        let md = std::fs::metadata(&path).map_err(|e| e.to_string())?;
        let c1 = open(&path)?;
        let c2 = open(&path)?;
        if c1.len() != md.len() {
            return Ok(Some(("len-mismatch".into(), format!("len() = {}, fstat says {}", c1.len(), md.len()))));
        }
        if c1.last_modified() != Some(md.modified().map_err(|e| e.to_string())?) {
            return Ok(Some(("mtime-mismatch".into(), format!("last_modified() = {:?}, fstat says {:?}", c1.last_modified(), md.modified()))));
        }
        let e1 = c1.etag().map(|e| e.as_bytes().to_vec()).unwrap_or_default();
        let e2 = c2.etag().map(|e| e.as_bytes().to_vec()).unwrap_or_default();
        if !etag_ok(&e1) {
            return Ok(Some(("etag-syntax".into(), format!("ETag {:?} is not a valid strong entity-tag", show(&e1)))));
        }
        if e1 != e2 || c1.etag().map(|e| e.as_bytes().to_vec()) != Some(e1.clone()) {
            return Ok(Some(("etag-unstable".into(), format!("two instances on the unmodified file: {:?} vs {:?}", show(&e1), show(&e2)))));
        }
        let mtime = md.modified().map_err(|e| e.to_string())?;
        // (0) the file is not modified, but things around it change: a second name is made, its
        // permissions and access time change, it is renamed, its content is read, its descriptor
        // is duplicated. Length, modification time and identity stay what they were, so every
        // instance must carry the same tag.
        {
            let tag = |c: Crf| c.etag().map(|e| e.as_bytes().to_vec()).unwrap_or_default();
            let mut seen: Vec<(&str, Vec<u8>)> = Vec::new();
            std::fs::hard_link(&path, &link).map_err(|e| e.to_string())?;
            seen.push(("after a second hard link was made", tag(open(&path)?)));
            seen.push(("through the second hard link", tag(open(&link)?)));
            {
                use std::os::unix::fs::PermissionsExt;
                std::fs::set_permissions(&path, std::fs::Permissions::from_mode(0o640)).map_err(|e| e.to_string())?;
            }
            seen.push(("after chmod", tag(open(&path)?)));
            File::options().write(true).open(&path).and_then(|f| f.set_times(std::fs::FileTimes::new().set_accessed(mtime - std::time::Duration::from_secs(5)))).map_err(|e| e.to_string())?;
            seen.push(("after its access time was set", tag(open(&path)?)));
            let moved = dir.0.join("f-moved");
            std::fs::rename(&path, &moved).map_err(|e| e.to_string())?;
            seen.push(("after a rename", tag(open(&moved)?)));
            std::fs::rename(&moved, &path).map_err(|e| e.to_string())?;
            let _ = std::fs::read(&path).map_err(|e| e.to_string())?;
            seen.push(("after its content was read", tag(open(&path)?)));
            let f = File::open(&path).map_err(|e| e.to_string())?;
            seen.push(("from a duplicated descriptor", tag(Crf::new(f.try_clone().map_err(|e| e.to_string())?, http::HeaderMap::new()).map_err(|e| e.to_string())?)));
            let md2 = f.metadata().map_err(|e| e.to_string())?;
            if md2.len() != md.len() || md2.modified().ok() != Some(mtime) || std::os::unix::fs::MetadataExt::ino(&md2) != std::os::unix::fs::MetadataExt::ino(&md) {
                return Err("the file system changed length / mtime / inode on a metadata-only operation".into());
            }
            seen.push(("via new_with_metadata", tag(Crf::new_with_metadata(f, &md2, http::HeaderMap::new()).map_err(|e| e.to_string())?)));
            for (how, e) in seen {
                if e != e1 {
                    return Ok(Some(("etag-unstable|unmodified-file".into(), format!("file not modified (same length, mtime, inode), opened {}: {:?} vs {:?}", how, show(&e1), show(&e)))));
                }
            }
        }
        // (1) length change, mtime restored
        {
            let mut f = File::options().append(true).open(&path).map_err(|e| e.to_string())?;
            f.write_all(b"x").map_err(|e| e.to_string())?;
            f.set_modified(mtime).map_err(|e| e.to_string())?;
        }
        let e = open(&path)?.etag().map(|e| e.as_bytes().to_vec()).unwrap_or_default();
        if e == e1 {
            return Ok(Some(("etag-not-changed|length".into(), format!("length {} -> {} with the same mtime: ETag still {:?}", size, size + 1, show(&e)))));
        }
        File::options().write(true).open(&path).and_then(|f| {
            f.set_len(size)?;
            f.set_modified(mtime)
        }).map_err(|e| e.to_string())?;
        // (a file modified and restored is not "unmodified": nothing is demanded of its tag)
        // (2) mtime changes
        for (what, d) in [("+1ns", 1i128), ("-1ns", -1), ("+1s", 1_000_000_000), ("-1s", -1_000_000_000), ("+1s-1ns", 999_999_999)] {
            let t = if d >= 0 { mtime + std::time::Duration::from_nanos(d as u64) } else { mtime - std::time::Duration::from_nanos((-d) as u64) };
            File::options().write(true).open(&path).and_then(|f| f.set_modified(t)).map_err(|e| e.to_string())?;
            let c = open(&path)?;
            if c.last_modified() != Some(t) {
                return Ok(Some(("mtime-mismatch".into(), format!("after set_modified({}) last_modified() is {:?}", what, c.last_modified()))));
            }
            let e = c.etag().map(|e| e.as_bytes().to_vec()).unwrap_or_default();
            if e == e1 {
                return Ok(Some((format!("etag-not-changed|mtime{}", what), format!("mtime changed by {}: ETag still {:?}", what, show(&e)))));
            }
        }
        File::options().write(true).open(&path).and_then(|f| f.set_modified(mtime)).map_err(|e| e.to_string())?;
        // (3) identity: replaced by a same-size, same-mtime copy
        let p2 = dir.0.join("g");
        make_file(&p2, size);
        File::options().write(true).open(&p2).and_then(|f| f.set_modified(mtime)).map_err(|e| e.to_string())?;
        std::fs::rename(&p2, &path).map_err(|e| e.to_string())?;
        let e = open(&path)?.etag().map(|e| e.as_bytes().to_vec()).unwrap_or_default();
        if e == e1 {
            return Ok(Some(("etag-not-changed|identity".into(), format!("file replaced by a same-size same-mtime copy: ETag still {:?}", show(&e)))));
        }
        // the instance opened before all this still reports its construction-time values
        if c1.len() != size || c1.last_modified() != Some(mtime) || c1.etag().map(|e| e.as_bytes().to_vec()) != Some(e1.clone()) {
            return Ok(Some(("construction-values-changed".into(), "an existing instance changed its len / mtime / etag after the file was modified".into())));
        }
        Ok(None)
    });
    match r {
        Err(p) => fail(&format!("panic@{}", norm_loc(&p)), p),
        Ok(Err(e)) => (Verdict::DontCare(format!("file system operation failed: {}", e)), None, desc.clone()),
        Ok(Ok(Some((sig, msg)))) => fail(&sig, msg),
        Ok(Ok(None)) => {
            sink.count("metadata_and_etag_histories");
            (Verdict::Ok, Some(hash64(&("meta", size))), desc.clone())
        }
    }
}

fn run_reuse(size: u64, reads: u32, trunc_to: u64, sink: &mut Sink) -> (Verdict, Option<u64>, Value) {
    let desc = FileCase::Reuse { size, reads, trunc_to }.to_json();
    let dir = TempDir::new("c18r");
    let path = dir.0.join("f");
    make_file(&path, size);
    let want = content(0, size as usize);
    let r = crate::util::catch(|| -> Result<Option<(String, String)>, String> {
        let crf = Crf::new(File::open(&path).map_err(|e| e.to_string())?, http::HeaderMap::new()).map_err(|e| e.to_string())?;
        for i in 0..reads {
            let o = stream_read(&crf, 0, size, None, &path);
            if o.terminal != "end" || o.data != want {
                return Ok(Some(("reuse-read-wrong".into(), format!("read {} of the intact file through one entity: terminal {}, {} of {} bytes, equal = {}", i, o.terminal, o.data.len(), size, o.data == want))));
            }
            if size >= 4 {
                let (a, b) = (size / 4, size - size / 4);
                let o = stream_read(&crf, a, b, None, &path);
                if o.terminal != "end" || o.data != want[a as usize..b as usize] {
                    return Ok(Some(("reuse-read-wrong".into(), format!("partial read {}..{} after {} whole reads: terminal {}, {} bytes", a, b, i + 1, o.terminal, o.data.len()))));
                }
            }
        }
        File::options().write(true).open(&path).and_then(|f| f.set_len(trunc_to)).map_err(|e| e.to_string())?;
        // what is still there is still served
        if trunc_to > 0 {
            let o = stream_read(&crf, 0, trunc_to, None, &path);
            if o.terminal != "end" || o.data != want[..trunc_to as usize] {
                return Ok(Some(("reuse-read-wrong|after-truncation".into(), format!("range 0..{} (still present) after truncation: terminal {}, {} bytes", trunc_to, o.terminal, o.data.len()))));
            }
        }
        // a range that reaches past the new end must fail - never end short, never serve stale bytes
        let o = stream_read(&crf, 0, size, None, &path);
        if !o.terminal.starts_with("err:") {
            return Ok(Some((format!("truncated-but-{}|after-{}-reads", if o.terminal == "end" { "clean-end" } else { "no-terminal" }, reads.min(3)), format!("file of {} bytes read {} time(s) through one entity, truncated to {}, streamed again: terminal {} after {} bytes", size, reads, trunc_to, o.terminal, o.data.len()))));
        }
        if o.data.len() as u64 > trunc_to || o.data != want[..o.data.len()] {
            return Ok(Some(("truncated-stale-or-wrong-bytes".into(), format!("after truncation to {} the stream delivered {} bytes before failing (equal to the old prefix: {})", trunc_to, o.data.len(), o.data == want[..o.data.len().min(want.len())]))));
        }
        // the file gets its bytes back (same length, same content): a new stream on the same
        // entity covers a complete file again and must deliver it
        {
            let mut f = File::options().write(true).open(&path).map_err(|e| e.to_string())?;
            use std::io::Seek;
            f.seek(std::io::SeekFrom::Start(0)).map_err(|e| e.to_string())?;
            f.write_all(&want).map_err(|e| e.to_string())?;
            f.sync_all().ok();
        }
        for (a, b) in [(0, size), (size / 2, size)] {
            if a >= b {
                continue;
            }
            let o = stream_read(&crf, a, b, None, &path);
            if o.terminal != "end" || o.data != want[a as usize..b as usize] {
                return Ok(Some(("restored-file-not-served".into(), format!("file truncated to {}, a stream failed, the file was written back completely; a new stream {}..{} on the same entity: terminal {}, {} bytes", trunc_to, a, b, o.terminal, o.data.len()))));
            }
        }
        Ok(None)
    });
    match r {
        Err(p) => (Verdict::viol(format!("panic@{}", norm_loc(&p)), p), None, desc),
        Ok(Err(e)) => (Verdict::DontCare(format!("file system operation failed: {}", e)), None, desc),
        Ok(Ok(Some((sig, msg)))) => (Verdict::viol(sig, msg), None, desc),
        Ok(Ok(None)) => {
            sink.count("entity_reuse_histories");
            (Verdict::Ok, Some(hash64(&("reuse", size, reads, trunc_to))), desc)
        }
    }
}

fn run_range_seq(size: u64, seed: u64, sink: &mut Sink) -> (Verdict, Option<u64>, Value) {
    let desc = FileCase::RangeSeq { size, seed }.to_json();
    let dir = TempDir::new("c18s");
    let path = dir.0.join("f");
    make_file(&path, size);
    let want = content(0, size as usize);
    let mut rng = crate::util::Rng::from_parts(seed, &[18, size]);
    let r = crate::util::catch(|| -> Result<Option<(String, String)>, String> {
        let crf = Crf::new(File::open(&path).map_err(|e| e.to_string())?, http::HeaderMap::new()).map_err(|e| e.to_string())?;
        // tail first, then the front, then random ranges, then the whole file
        let tail = 1 + rng.below(size.min(5000));
        let mut seq: Vec<(u64, u64)> = vec![(size - tail, size), (0, (size - tail).max(1).min(size))];
        for _ in 0..6 {
            let a = rng.below(size);
            seq.push((a, a + 1 + rng.below(size - a)));
        }
        seq.push((0, size));
        for (i, (a, b)) in seq.iter().enumerate() {
            let o = stream_read(&crf, *a, *b, None, &path);
            if o.terminal != "end" || o.data != want[*a as usize..*b as usize] {
                let at = o.data.iter().zip(want[*a as usize..].iter()).position(|(x, y)| x != y);
                return Ok(Some(("range-sequence-wrong-bytes".into(), format!("range {} of the sequence ({}..{}) on one entity: terminal {}, {} of {} bytes, first difference at {:?} (earlier ranges: {:?})", i, a, b, o.terminal, o.data.len(), b - a, at, &seq[..i]))));
            }
        }
        // multi-range through serve, the tail part first
        if size >= 400 {
            let front = (16u64, (size / 4).min(271));
            let req = http::Request::builder().header("range", format!("bytes={}-{},{}-{}", size - tail.min(size / 4), size - 1, front.0, front.1)).body(()).unwrap();
            let crf2 = Crf::new(File::open(&path).map_err(|e| e.to_string())?, http::HeaderMap::new()).map_err(|e| e.to_string())?;
            let resp = http_serve::serve(crf2, &req);
            let (parts, body) = resp.into_parts();
            let d = drain(body, u64::MAX, 0);
            let ct = parts.headers.get("content-type").map(|v| v.as_bytes().to_vec()).unwrap_or_default();
            if parts.status.as_u16() == 206 && ct.starts_with(b"multipart/") {
                let b = crate::model::multipart::boundary_of(&ct).ok_or("no boundary")?;
                let p = crate::model::multipart::parse(&d.data, &b, d.terminal == Terminal::End).map_err(|e| format!("multipart body unreadable: {}", e))?;
                for part in &p.parts {
                    let data = &d.data[part.data_off..part.data_off + part.data_present];
                    if part.last as usize >= want.len() || data != &want[part.first as usize..=part.last as usize] {
                        return Ok(Some(("multipart-part-wrong-bytes".into(), format!("part {}-{} of a tail-first multi-range response over a {}-byte file does not hold those file bytes", part.first, part.last, size))));
                    }
                }
                if p.parts.len() != 2 || d.terminal != Terminal::End {
                    return Ok(Some(("multipart-incomplete".into(), format!("{} parts, terminal {:?}", p.parts.len(), d.terminal))));
                }
            }
        }
        Ok(None)
    });
    match r {
        Err(p) => (Verdict::viol(format!("panic@{}", norm_loc(&p)), p), None, desc),
        Ok(Err(e)) => (Verdict::DontCare(format!("not judged: {}", e)), None, desc),
        Ok(Ok(Some((sig, msg)))) => (Verdict::viol(sig, msg), None, desc),
        Ok(Ok(None)) => {
            sink.count("range_sequences_on_one_entity");
            (Verdict::Ok, Some(hash64(&("seq", size, seed))), desc)
        }
    }
}

fn run_non_regular(sink: &mut Sink) -> (Verdict, Option<u64>, Value) {
    let desc = FileCase::NonRegular.to_json();
    let dir = TempDir::new("c18n");
    let fifo = dir.0.join("fifo");
    let c = std::ffi::CString::new(fifo.to_str().unwrap()).unwrap();
    let made_fifo = unsafe { libc::mkfifo(c.as_ptr(), 0o600) } == 0;
    let mut targets: Vec<(&str, Option<File>)> = vec![("directory", File::open(&dir.0).ok()), ("dev-null", File::open("/dev/null").ok())];
    if made_fifo {
        use std::os::unix::fs::OpenOptionsExt;
        targets.push(("fifo", File::options().read(true).custom_flags(libc::O_NONBLOCK).open(&fifo).ok()));
    }
    // a socket: as a descriptor (one end of a pair) and as a bound path's metadata
    {
        use std::os::fd::OwnedFd;
        if let Ok((a, _b)) = std::os::unix::net::UnixStream::pair() {
            targets.push(("socket", Some(File::from(OwnedFd::from(a)))));
        }
    }
    let sock_path = dir.0.join("sock");
    let _listener = std::os::unix::net::UnixListener::bind(&sock_path).ok();
    let link_path = dir.0.join("link");
    let plain_path = dir.0.join("plain");
    let _ = std::fs::write(&plain_path, b"plain");
    let _ = std::os::unix::fs::symlink(&plain_path, &link_path);
    // metadata that says "socket" / "symlink" / "directory", handed over with an ordinary file
    for (what, md) in [("socket-metadata", std::fs::metadata(&sock_path).ok()), ("symlink-metadata", std::fs::symlink_metadata(&link_path).ok()), ("directory-metadata", std::fs::metadata(&dir.0).ok())] {
        if let (Some(md), Ok(f)) = (md, File::open(&plain_path)) {
            match crate::util::catch(|| Crf::new_with_metadata(f, &md, http::HeaderMap::new()).is_ok()) {
                Ok(false) => sink.count("non_regular_refused"),
                Ok(true) => return (Verdict::viol(format!("non-regular-accepted|{}", what), format!("ChunkedReadFile::new_with_metadata accepted metadata of a {}", what)), None, desc),
                Err(p) => return (Verdict::viol(format!("panic@{}", norm_loc(&p)), p), None, desc),
            }
        }
    }
    for (what, f) in targets {
        let f = match f {
            Some(f) => f,
            None => continue,
        };
        let md = f.metadata().ok();
        let r1 = crate::util::catch(|| Crf::new(f.try_clone().unwrap(), http::HeaderMap::new()).is_ok());
        let r2 = md.map(|md| crate::util::catch(|| Crf::new_with_metadata(f, &md, http::HeaderMap::new()).is_ok()));
        for r in [Some(r1), r2].into_iter().flatten() {
            match r {
                Ok(false) => sink.count("non_regular_refused"),
                Ok(true) => return (Verdict::viol(format!("non-regular-accepted|{}", what), format!("ChunkedReadFile was constructed on a {}", what)), None, desc),
                Err(p) => return (Verdict::viol(format!("panic@{}", norm_loc(&p)), p), None, desc),
            }
        }
    }
    (Verdict::Ok, Some(3), desc)
}

const SIZES: [u64; 7] = [0, 1, 65_535, 65_536, 65_537, 131_072, 200_001];

fn positions(size: u64) -> Vec<u64> {
    let mut v: Vec<u64> = [0u64, 1, 65_535, 65_536, 65_537, 131_071, 131_072, size.saturating_sub(1), size].into_iter().filter(|p| *p <= size).collect();
    v.sort_unstable();
    v.dedup();
    v
}

fn run_case(c: &FileCase, sink: &mut Sink) {
    if !sink.admit() {
        return;
    }
    let (v, nt, desc) = match c {
        FileCase::Read { size, a, b, cap, trunc, via_serve } => run_read(*size, *a, *b, *cap, *trunc, *via_serve, sink),
        FileCase::Meta { size } => run_meta(*size, sink),
        FileCase::Reuse { size, reads, trunc_to } => run_reuse(*size, *reads, *trunc_to, sink),
        FileCase::RangeSeq { size, seed } => run_range_seq(*size, *seed, sink),
        FileCase::NonRegular => run_non_regular(sink),
        FileCase::BigSparse { size, a, b } => run_big_sparse(*size, *a, *b, sink),
        FileCase::Concurrent { size, tasks, per_task, seed } => run_concurrent(*size, *tasks, *per_task, *seed, sink),
    };
    sink.record(v, nt, &|| desc.clone());
}

pub struct C18;

fn c18_sizes(ctx: &Ctx) -> Vec<u64> {
    if ctx.leg.slow() {
        vec![1, 65_537]
    } else {
        SIZES.to_vec()
    }
}

impl Prop for C18 {
    fn id(&self) -> &'static str {
        "C18"
    }
    fn level(&self) -> &'static str {
        "fault_enumeration"
    }
    fn rule(&self, ctx: &Ctx) -> String {
        format!("real temporary files of sizes {:?} (position-hash content) on a multi-thread tokio runtime. Per size: every range with start <= end over {{0, 1, 65535, 65536, 65537, 131071, 131072, size-1, size}} x read cap {{none, 65536, 4097, 1}} (hook: short reads); truncation to {{0, start, start+1, 65535, 65536, end-1}} before poll 0, 1 and 2; the same through serve() with a Range header; metadata/ETag histories (two instances, length +1, mtime +-1ns / +-1s, replacement by a same-size same-mtime copy); construction on a directory, /dev/null, a FIFO and a socket, and with metadata describing a socket / symlink / directory; one entity streamed 1..6 times, then truncated, then written back completely (files of 1 .. 200001 bytes); sequences of ranges on one entity beginning with the tail of the file, and tail-first multi-range requests through serve; sparse files of 70 MiB - 2 GiB streamed completely (thousands of consecutive full reads); 16 tasks streaming unaligned ranges of one shared entity concurrently. Non-trivial = distinct case judged (bytes compared, or truncation answered by an error within range-length+8 ready polls)", c18_sizes(ctx))
    }
    fn n_blocks(&self, ctx: &Ctx) -> usize {
        c18_sizes(ctx).len() * 4 + 1 + if ctx.leg.slow() { 1 } else { 16 + 3 + 2 }
    }
    fn exhaustive(&self, _: &Ctx) -> bool {
        true
    }
    fn run_block(&self, b: usize, sink: &mut Sink) {
        let ctx = sink.ctx.clone();
        let sizes = c18_sizes(&ctx);
        if !ctx.leg.slow() && b > sizes.len() * 4 + 19 {
            // many tasks streaming one shared entity at once (positioned reads must not share a cursor)
            let k = (b - (sizes.len() * 4 + 20)) as u64;
            let n = if ctx.tier == Tier::Thorough { 60 } else { 25 };
            run_case(&FileCase::Concurrent { size: 8 << 20, tasks: 16, per_task: n, seed: ctx.seed * 2 + k }, sink);
            return;
        }
        if !ctx.leg.slow() && b > sizes.len() * 4 + 16 {
            // very long streams (hundreds to thousands of consecutive full reads)
            let k = b - (sizes.len() * 4 + 17);
            let (size, a, e) = [(300u64 << 20, 0u64, 300u64 << 20), (70 << 20, 12_345, (70 << 20) - 7), (if ctx.tier == Tier::Thorough { 2100 << 20 } else { 520 << 20 }, 1, if ctx.tier == Tier::Thorough { 2100 << 20 } else { 520 << 20 })][k];
            run_case(&FileCase::BigSparse { size, a, b: e }, sink);
            return;
        }
        if b > sizes.len() * 4 {
            // seeded random ranges, caps and truncation points
            let mut rng = crate::util::Rng::from_parts(ctx.seed, &[18, b as u64]);
            let n = if ctx.leg.slow() { 4 } else if ctx.tier == Tier::Thorough { 400 } else { 40 };
            for _ in 0..n {
                let size = if ctx.leg.slow() { rng.range(1, 70_000) } else { rng.range(1, 300_000) };
                let a = rng.below(size);
                let e = a + 1 + rng.below(size - a);
                let cap = *rng.pick(&[0usize, 0, 65_536, 30_000, 4097, 4096, 100]);
                let trunc = if rng.chance(1, 2) { Some((rng.below(4) as u32, rng.below(e))) } else { None };
                run_case(&FileCase::Read { size, a, b: e, cap, trunc, via_serve: rng.chance(1, 3) && trunc.is_none_or(|t| t.0 == 0) }, sink);
            }
            return;
        }
        if b == sizes.len() * 4 {
            run_case(&FileCase::NonRegular, sink);
            for s in &sizes {
                run_case(&FileCase::Meta { size: *s }, sink);
            }
            // one entity, a sequence of ranges beginning with the tail of the file
            for (i, size) in [1u64, 100, 4096, 40_000, 65_536, 65_537, 200_001].into_iter().enumerate() {
                for k in 0..(if ctx.leg.slow() { 1 } else { 4 }) {
                    run_case(&FileCase::RangeSeq { size, seed: ctx.seed * 100 + (i * 10 + k) as u64 }, sink);
                }
            }
            // one entity streamed several times, then the file shrinks
            for size in [1u64, 100, 4096, 4097, 65_536, 200_001] {
                for reads in [1u32, 2, 3, 6] {
                    for trunc_to in [0, size / 2] {
                        if ctx.leg.slow() && (reads > 2 || size > 5000) {
                            continue;
                        }
                        run_case(&FileCase::Reuse { size, reads, trunc_to }, sink);
                    }
                }
            }
            return;
        }
        let size = sizes[b / 4];
        let part = b % 4;
        let pos = positions(size);
        let slow = ctx.leg.slow();
        match part {
            0 | 1 => {
                // intact file, direct stream (0) / through serve (1)
                for &a in &pos {
                    for &e in &pos {
                        if e < a || (part == 1 && (e == a || a >= size)) {
                            continue;
                        }
                        let caps: &[usize] = if slow { &[0, 4097] } else if part == 0 { &[0, 65_536, 4097, 1] } else { &[0, 4097] };
                        for &cap in caps {
                            if cap == 1 && e - a > 70_000 && ctx.tier != Tier::Thorough {
                                continue;
                            }
                            if slow && e - a > 70_000 {
                                continue;
                            }
                            run_case(&FileCase::Read { size, a, b: e, cap, trunc: None, via_serve: part == 1 }, sink);
                        }
                    }
                }
            }
            _ => {
                // truncation between construction and poll k
                for &a in &pos {
                    for &e in &pos {
                        if e <= a {
                            continue;
                        }
                        let mut ts: Vec<u64> = vec![0, a, a + 1, 65_535, 65_536, e - 1];
                        ts.retain(|t| *t < e);
                        ts.sort_unstable();
                        ts.dedup();
                        for t in ts {
                            for k in 0..3u32 {
                                if part == 3 && k != 0 {
                                    continue; // through serve: truncate before the first poll
                                }
                                if slow && (k == 2 || e - a > 70_000) {
                                    continue;
                                }
                                let cap = if (a + e + t + k as u64) % 3 == 0 { 4097 } else { 0 };
                                run_case(&FileCase::Read { size, a, b: e, cap, trunc: Some((k, t)), via_serve: part == 3 }, sink);
                            }
                        }
                    }
                }
            }
        }
    }
    fn replay(&self, case: &Value, sink: &mut Sink) {
        let inner = if case.get("case").is_some() { &case["case"] } else { case };
        let c = FileCase::from_json(inner);
        run_case(&c, sink);
    }
    fn floors(&self, ctx: &Ctx) -> Vec<(&'static str, u64)> {
        let _ = ctx;
        vec![("ranges_verified", 500), ("truncation_reported_as_error", 500), ("multi_chunk_streams", 50), ("short_read_injected", 100), ("metadata_and_etag_histories", 3), ("non_regular_refused", 4), ("big_streams_verified", 3), ("concurrent_streams_verified", 500)]
    }
    fn assumptions(&self) -> Vec<String> {
        vec!["not judged: files with pre-epoch modification times, growing files, content changes that leave size and mtime untouched; 'bounded number of polls' = range length + 8 ready polls".into(),
             "the file system must support nanosecond mtimes and File::set_modified (cases where a file-system operation fails are counted as not judged)".into()]
    }
}
