//! Workload generators shared by the `serve` properties.

use crate::ent::{ChunkPlan, EntSpec, Sz};
use crate::model::cond::{fmt_date, DateStyle};
use crate::util::Rng;

pub const U64MAX: u64 = u64::MAX;

/// Entity lengths of the C01 quantifier: 0, 1, chunk-boundary sizes, decimal-width boundaries,
/// up to 2^64-1.
pub fn lens_all() -> Vec<u64> {
    let mut v: Vec<u64> = vec![
        0, 1, 2, 9, 10, 99, 100, 239, 240, 4095, 4096, 65_535, 65_536, 65_537,
        1 << 32, 1 << 63, U64MAX - 1, U64MAX,
    ];
    let mut p: u64 = 1000;
    for _ in 3..=19 {
        v.push(p - 1);
        v.push(p);
        v.push(p + 1);
        p = p.saturating_mul(10);
    }
    v.sort_unstable();
    v.dedup();
    v
}

pub fn lens_small() -> Vec<u64> {
    vec![0, 1, 2, 9, 10, 99, 100, 239, 240, 4095, 4096]
}

/// Named chunk plans of the C01/C02/C06 workloads.
pub fn chunk_plans() -> Vec<ChunkPlan> {
    let p = |sizes: Vec<Sz>, mask: u32, period: u8| ChunkPlan {
        sizes,
        pend_mask: mask,
        pend_period: period,
        hint_exact: false,
    };
    vec![
        p(vec![], 0, 0),                                                       // one chunk
        p(vec![Sz::Abs(1)], 0, 0),                                             // byte by byte
        p(vec![Sz::Abs(0), Sz::Abs(1), Sz::Abs(2), Sz::Abs(3), Sz::Abs(7)], 0, 0),
        p(vec![Sz::Rem(1), Sz::Abs(1)], 0, 0),                                 // all but one, one
        p(vec![Sz::Abs(1), Sz::Rem(0)], 0, 0),                                 // one, the rest
        p(vec![Sz::Abs(0), Sz::Rem(0), Sz::Abs(0)], 0, 0),                     // empty, all
        p(vec![Sz::Abs(5)], 0b011, 3),                                         // 2 Pendings per chunk
        p(vec![], 0b01, 2),                                                    // Pending first
        p(vec![Sz::Rem(2), Sz::Abs(0), Sz::Abs(1), Sz::Abs(0), Sz::Abs(1)], 0b0100, 4),
        // long runs of empty chunks between the data (an honest, if odd, stream)
        p(std::iter::repeat(Sz::Abs(0)).take(40).chain([Sz::Abs(5)]).collect(), 0, 0),
        p(std::iter::repeat(Sz::Abs(0)).take(100).chain([Sz::Rem(3), Sz::Abs(1)]).collect(), 0b1, 32),
    ]
}

pub fn plan_is_small_chunks(p: &ChunkPlan) -> bool {
    !p.sizes.is_empty() && p.sizes.iter().all(|s| matches!(s, Sz::Abs(n) if *n < 64))
}

/// Range header values interesting for an entity of length `l` (any validity).
pub fn range_values(l: u64, rng: &mut Rng) -> Vec<Option<Vec<u8>>> {
    let mut v: Vec<Option<String>> = vec![None];
    let s = |x: String| Some(x);
    let lm1 = l.saturating_sub(1);
    let mid = l / 2;
    v.push(s("bytes=0-0".into()));
    v.push(s("bytes=0-".into()));
    v.push(s("bytes=-1".into()));
    v.push(s("bytes=1-".into()));
    v.push(s(format!("bytes={}-", lm1)));
    v.push(s(format!("bytes=0-{}", lm1)));
    v.push(s(format!("bytes=0-{}", l)));
    v.push(s(format!("bytes={}-", l)));
    v.push(s(format!("bytes=-{}", l)));
    v.push(s(format!("bytes=-{}", l.saturating_add(1))));
    v.push(s("bytes=-0".into()));
    v.push(s(format!("bytes={}-{}", mid, mid.saturating_add(10))));
    v.push(s(format!("bytes={}-{}", lm1.saturating_sub(2), lm1)));
    v.push(s("bytes=0-0,-1".into()));
    v.push(s("bytes=0-1, 3-4".into()));
    // three and four ranges that touch: one chunk of the entity may span two seams
    v.push(s(format!("bytes=0-{},{}-{},{}-{}", mid / 4, mid / 4 + 1, mid / 4 + 3, mid / 4 + 4, mid)));
    v.push(s("bytes=0-1,2-3,4-4,5-9".into()));
    v.push(s(format!("bytes=0-5,{}-{}", l.saturating_sub(6), lm1)));
    v.push(s(format!("bytes={}-{},0-0,{}-", mid, mid.saturating_add(1), lm1)));
    v.push(s(format!("bytes={}-,{}-", l, l.saturating_add(5))));
    v.push(s("bytes=abc".into()));
    v.push(s("items=0-5".into()));
    v.push(s("bytes=0-18446744073709551615".into()));
    v.push(s("bytes=18446744073709551615-".into()));
    v.push(s("bytes=0-18446744073709551616".into()));
    v.push(s("bytes=-18446744073709551615".into()));
    // a random single and a random pair
    if l > 0 {
        let a = rng.below(l);
        let b = a + rng.below(l - a);
        v.push(s(format!("bytes={}-{}", a, b)));
        let c = rng.below(l);
        v.push(s(format!("bytes={}-{},{}-{}", a, a + (b - a).min(3), c, c.saturating_add(2))));
    }
    v.into_iter().map(|o| o.map(String::into_bytes)).collect()
}

pub const FIXED_SEC: u64 = 1_709_164_800; // 2024-02-29 00:00:00 UTC

pub fn tag_variants(etag: Option<&[u8]>) -> Vec<Vec<u8>> {
    // same-strong, same-weak, different-strong, different-weak, contains ", "
    let opaque: Vec<u8> = match etag {
        Some(e) => e.strip_prefix(b"W/").unwrap_or(e).to_vec(),
        None => b"\"v1\"".to_vec(),
    };
    let mut weak = b"W/".to_vec();
    weak.extend_from_slice(&opaque);
    // tags derived from the entity's own tag (what proxies / content-coding modules append)
    let inner = opaque[1..opaque.len() - 1].to_vec();
    let mut derived = b"\"".to_vec();
    derived.extend_from_slice(&inner);
    derived.extend_from_slice(b"-gzip\"");
    let mut flipped = opaque.clone();
    let k = flipped.len() - 2;
    flipped[k] ^= 0x01;
    vec![
        opaque,
        weak,
        b"\"zz\"".to_vec(),
        b"W/\"zz\"".to_vec(),
        b"\"a, b\"".to_vec(),
        derived,
        flipped,
    ]
}

pub fn join_tags(tags: &[&[u8]], sep: &[u8]) -> Vec<u8> {
    let mut v = Vec::new();
    for (i, t) in tags.iter().enumerate() {
        if i > 0 {
            v.extend_from_slice(sep);
        }
        v.extend_from_slice(t);
    }
    v
}

/// A handful of conditional-header combinations for an entity (used where the conditional
/// logic is not what is judged but must be exercised).
pub fn cond_combos(ent: &EntSpec, rng: &mut Rng, n: usize) -> Vec<Vec<(String, Vec<u8>)>> {
    let tags = tag_variants(ent.etag.as_deref());
    let sec = ent.mtime.map(|m| m.0).unwrap_or(FIXED_SEC);
    let date = |d: i64| fmt_date((sec as i64 + d) as u64, DateStyle::Imf).into_bytes();
    let pool: Vec<(&str, Vec<u8>)> = vec![
        ("if-match", tags[0].clone()),
        ("if-match", tags[2].clone()),
        ("if-match", b"*".to_vec()),
        ("if-none-match", tags[1].clone()),
        ("if-none-match", tags[3].clone()),
        ("if-none-match", b"*".to_vec()),
        ("if-modified-since", date(-1)),
        ("if-modified-since", date(0)),
        ("if-unmodified-since", date(-1)),
        ("if-unmodified-since", date(1)),
        ("if-range", tags[0].clone()),
        ("if-range", tags[1].clone()),
        ("if-range", tags[2].clone()),
        ("if-range", date(0)),
        ("if-match", b"garbage".to_vec()),
        ("if-modified-since", b"not a date".to_vec()),
    ];
    let mut out = vec![Vec::new()];
    for (k, v) in &pool {
        out.push(vec![(k.to_string(), v.clone())]);
    }
    while out.len() < n {
        let k = 2 + rng.below(2) as usize;
        let mut c: Vec<(String, Vec<u8>)> = Vec::new();
        for _ in 0..k {
            let (name, v) = rng.pick(&pool);
            if !c.iter().any(|(n2, _)| n2 == name) {
                c.push((name.to_string(), v.clone()));
            }
        }
        out.push(c);
    }
    out.truncate(n.max(1));
    out
}

pub fn default_ent(len: u64) -> EntSpec {
    EntSpec {
        len,
        etag: Some(b"\"v1\"".to_vec()),
        mtime: Some((FIXED_SEC, 0)),
        hdrs: vec![("content-type".into(), b"application/x-test".to_vec())],
        plan: ChunkPlan::default(),
        fault: None,
        slow_calls: false,
        content_mode: 0,
    }
}

/// The categorical product of request shapes for an entity: Range kind x If-Range kind x one
/// precondition. 5 x 5 x 10 requests; used where a property must hold whatever else the request
/// carries (header combinations no single-property workload would pair up).
pub fn shape_requests(ent: &EntSpec) -> Vec<Vec<(String, Vec<u8>)>> {
    let l = ent.len;
    let tags = tag_variants(ent.etag.as_deref());
    let own: Vec<u8> = ent.etag.clone().unwrap_or_else(|| b"\"v1\"".to_vec());
    let sec = ent.mtime.map(|m| m.0).unwrap_or(FIXED_SEC);
    let date = |d: i64| fmt_date((sec as i64 + d) as u64, DateStyle::Imf).into_bytes();
    let ranges: Vec<Option<Vec<u8>>> = vec![
        None,
        Some(b"bytes=1-3".to_vec()),
        Some(b"bytes=0-1, 5-6".to_vec()),
        // two ranges that together are not smaller than the entity: answered with the whole entity
        Some(format!("bytes=0-{},{}-{}", l / 2 + 10, l / 2, l.saturating_sub(1)).into_bytes()),
        Some(format!("bytes={}-", l.saturating_add(5)).into_bytes()),
    ];
    let if_ranges: Vec<Option<Vec<u8>>> = vec![None, Some(own.clone()), Some(b"\"other\"".to_vec()), Some(date(0)), Some(date(1))];
    let pres: Vec<Option<(&str, Vec<u8>)>> = vec![
        None,
        Some(("if-match", b"*".to_vec())),
        Some(("if-match", own.clone())),
        Some(("if-match", b"\"nope\"".to_vec())),
        Some(("if-none-match", b"\"nope\"".to_vec())),
        Some(("if-none-match", tags[1].clone())),
        Some(("if-unmodified-since", date(1))),
        Some(("if-unmodified-since", date(-1))),
        Some(("if-modified-since", date(-1))),
        Some(("if-modified-since", date(0))),
    ];
    let mut out = Vec::new();
    for r in &ranges {
        for ir in &if_ranges {
            for p in &pres {
                let mut h: Vec<(String, Vec<u8>)> = Vec::new();
                if let Some((k, v)) = p {
                    h.push((k.to_string(), v.clone()));
                }
                if let Some(r) = r {
                    h.push(("range".into(), r.clone()));
                }
                if let Some(ir) = ir {
                    h.push(("if-range".into(), ir.clone()));
                }
                out.push(h);
            }
        }
    }
    out
}

pub const MANY_COUNTS: [u64; 10] = [21, 33, 64, 100, 257, 1000, 1024, 1025, 2000, 5000];
pub const MANY_LAYOUTS: u8 = 7;

/// A Range value with `n` specs on an entity of length `l` (n * 40 < l / 4, so a multipart
/// answer is mandatory). Layouts: 0 disjoint one-byte ranges, 1 chains (each overlaps the next,
/// not the one after), 2 descending order, 3 all identical, 4 nested, 5 chains in a shuffled
/// order, 6 pseudo-random positions and lengths (many partial overlaps, no order).
pub fn many_ranges(l: u64, n: u64, layout: u8) -> Vec<u8> {
    let step = (l / 4 / n).clamp(8, 1000);
    let mut specs: Vec<String> = Vec::with_capacity(n as usize);
    for i in 0..n {
        let a = i * step;
        specs.push(match layout {
            0 | 2 => format!("{}-{}", a, a),
            1 => format!("{}-{}", a, a + step + 2),
            3 => "5-9".to_string(),
            4 => format!("{}-{}", i, 3 * n - i),
            5 => format!("{}-{}", a, a + step + 2),
            _ => {
                let h = i.wrapping_mul(0x9E37_79B9_7F4A_7C15).rotate_left(17) ^ (n << 7);
                let a = h % (n * step);
                format!("{}-{}", a, a + (h >> 40) % (3 * step))
            }
        });
    }
    if layout == 2 {
        specs.reverse();
    }
    if layout == 5 {
        // deterministic shuffle
        let mut x = 0x2545_F491_4F6C_DD1Du64 ^ n;
        for i in (1..specs.len()).rev() {
            x ^= x << 13;
            x ^= x >> 7;
            x ^= x << 17;
            specs.swap(i, (x % (i as u64 + 1)) as usize);
        }
    }
    format!("bytes={}", specs.join(if layout % 2 == 0 { "," } else { ", " })).into_bytes()
}
