//! The harness entity: any u64 length, position-dependent content generated lazily, a chunk
//! plan, a fault plan, and a recorder of everything `serve` asks of it.

use crate::util::{bytes_from_json, bytes_to_json, u64_from_json, u64_to_json};
use bytes::Bytes;
use futures_core::Stream;
use http::header::{HeaderMap, HeaderName, HeaderValue};
use serde_json::{json, Value};
use std::ops::Range;
use std::pin::Pin;
use std::sync::{Arc, Mutex};
use std::task::{Context, Poll};
use std::time::{Duration, SystemTime, UNIX_EPOCH};

pub type BoxError = Box<dyn std::error::Error + Send + Sync>;

/// Byte `i` of every harness entity. Any shift, swap or duplication changes the sequence.
#[inline]
pub fn content_byte(i: u64) -> u8 {
    let x = (i ^ 0x5bd1_e995).wrapping_mul(0x9E37_79B9_7F4A_7C15);
    (x >> 56) as u8 ^ (x >> 23) as u8
}

pub fn content(start: u64, n: usize) -> Vec<u8> {
    (0..n as u64).map(|k| content_byte(start.wrapping_add(k))).collect()
}

const BOUNDARY_LIKE: &[u8] = b"\r\n--B\r\nContent-Range: bytes 0-9/10\r\n\r\nxx\r\n--B--\r\n\r\n--B\r\n";

/// Content mode 1: entity bytes that look like multipart delimiters and part headers (with
/// position-hash bytes mixed in so that shifts stay visible).
#[inline]
pub fn content_byte_mode(mode: u8, i: u64) -> u8 {
    if mode == 1 && i % 64 < 48 {
        BOUNDARY_LIKE[(i % 64) as usize % BOUNDARY_LIKE.len()]
    } else {
        content_byte(i)
    }
}

pub fn content_mode(mode: u8, start: u64, n: usize) -> Vec<u8> {
    (0..n as u64).map(|k| content_byte_mode(mode, start.wrapping_add(k))).collect()
}

pub const MAX_CHUNK: u64 = 65_536;

#[derive(Clone, Debug, PartialEq, Eq, Hash)]
pub enum Sz {
    /// That many bytes (0 = an empty chunk).
    Abs(u32),
    /// All that remains of the range minus this many bytes (0 = everything).
    Rem(u32),
}

#[derive(Clone, Debug, PartialEq, Eq, Hash, Default)]
pub struct ChunkPlan {
    /// Cycled. Empty = one chunk (of at most 64 KiB) per poll.
    pub sizes: Vec<Sz>,
    /// Poll k of a stream returns Pending (after waking itself) iff bit (k % period) is set.
    pub pend_mask: u32,
    pub pend_period: u8,
    /// the stream reports an exact `size_hint` of what it is really going to yield (like
    /// `stream::iter`); default: the trait's (0, None)
    pub hint_exact: bool,
}

#[derive(Clone, Debug, PartialEq, Eq, Hash)]
pub enum FaultKind {
    /// Stream ends cleanly after `at` bytes (at < range length).
    EarlyEnd,
    /// Stream yields Err after `at` bytes.
    Err,
    /// Stream panics (without message, via `resume_unwind`) after `at` bytes; finished afterwards.
    Panic,
    /// The chunk that ends at offset `at` carries one extra junk byte; the rest follows.
    ExtraByte,
    /// After the complete range, one more 1-byte chunk.
    ExtraChunk,
    /// The stream simply runs `at` bytes past the end of the range (entity bytes beyond the
    /// range), chunked by the plan like the rest: an over-long chunk may straddle the end and
    /// further chunks may follow it.
    Overrun,
}

#[derive(Clone, Debug, PartialEq, Eq, Hash)]
pub struct Fault {
    /// Index (0-based) of the `get_range` call whose stream misbehaves.
    pub call: usize,
    pub at: u64,
    pub kind: FaultKind,
    /// the entity itself has shrunk: from its second call on, `len()` reports this value (the
    /// first call, which the response headers are built from, reports the original length)
    pub shrunk_len: Option<u64>,
}

#[derive(Clone, Debug, PartialEq, Eq, Hash, Default)]
pub struct EntSpec {
    pub len: u64,
    pub etag: Option<Vec<u8>>,
    /// (seconds since the epoch, nanoseconds)
    pub mtime: Option<(u64, u32)>,
    pub hdrs: Vec<(String, Vec<u8>)>,
    pub plan: ChunkPlan,
    pub fault: Option<Fault>,
    /// every metadata callback (len / etag / last_modified / add_headers) first waits until the
    /// wall clock has crossed into the next second: exposes code that reads the clock twice around
    /// a callback. Workload shaping only - no verdict depends on time.
    pub slow_calls: bool,
    /// 0 = position hash, 1 = bytes that look like multipart delimiters
    pub content_mode: u8,
}

impl EntSpec {
    pub fn mtime_systime(&self) -> Option<SystemTime> {
        self.mtime.map(|(s, n)| UNIX_EPOCH + Duration::new(s, n))
    }

    pub fn to_json(&self) -> Value {
        let sizes: Vec<Value> = self
            .plan
            .sizes
            .iter()
            .map(|s| match s {
                Sz::Abs(n) => json!(n),
                Sz::Rem(n) => json!({ "rem": n }),
            })
            .collect();
        json!({
            "len": u64_to_json(self.len),
            "etag": self.etag.as_ref().map(|e| bytes_to_json(e)),
            "mtime": self.mtime.map(|(s, n)| json!([s, n])),
            "hdrs": self.hdrs.iter().map(|(k, v)| json!([k, bytes_to_json(v)])).collect::<Vec<_>>(),
            "chunk_sizes": sizes,
            "pend_mask": self.plan.pend_mask,
            "pend_period": self.plan.pend_period,
            "hint_exact": self.plan.hint_exact,
            "slow_calls": self.slow_calls,
            "content_mode": self.content_mode,
            "fault": self.fault.as_ref().map(|f| json!({
                "call": f.call, "at": u64_to_json(f.at), "shrunk_len": f.shrunk_len.map(u64_to_json),
                "kind": match f.kind { FaultKind::EarlyEnd => "early_end", FaultKind::Err => "err", FaultKind::Panic => "panic",
                    FaultKind::ExtraByte => "extra_byte", FaultKind::ExtraChunk => "extra_chunk", FaultKind::Overrun => "overrun" }})),
        })
    }

    pub fn from_json(v: &Value) -> EntSpec {
        let sizes = v["chunk_sizes"]
            .as_array()
            .map(|a| {
                a.iter()
                    .map(|s| {
                        if let Some(r) = s.get("rem") {
                            Sz::Rem(r.as_u64().unwrap_or(0) as u32)
                        } else {
                            Sz::Abs(s.as_u64().unwrap_or(0) as u32)
                        }
                    })
                    .collect()
            })
            .unwrap_or_default();
        let fault = match &v["fault"] {
            Value::Object(f) => Some(Fault {
                call: f["call"].as_u64().unwrap_or(0) as usize,
                at: u64_from_json(&f["at"]),
                kind: match f["kind"].as_str().unwrap_or("") {
                    "early_end" => FaultKind::EarlyEnd,
                    "err" => FaultKind::Err,
                    "panic" => FaultKind::Panic,
                    "extra_byte" => FaultKind::ExtraByte,
                    "overrun" => FaultKind::Overrun,
                    _ => FaultKind::ExtraChunk,
                },
                shrunk_len: match &f["shrunk_len"] { Value::Null => None, x => Some(u64_from_json(x)) },
            }),
            _ => None,
        };
        EntSpec {
            len: u64_from_json(&v["len"]),
            etag: match &v["etag"] {
                Value::Null => None,
                e => Some(bytes_from_json(e)),
            },
            mtime: v["mtime"].as_array().map(|a| {
                (a[0].as_u64().unwrap_or(0), a[1].as_u64().unwrap_or(0) as u32)
            }),
            hdrs: v["hdrs"]
                .as_array()
                .map(|a| {
                    a.iter()
                        .map(|kv| (kv[0].as_str().unwrap_or("").to_string(), bytes_from_json(&kv[1])))
                        .collect()
                })
                .unwrap_or_default(),
            plan: ChunkPlan {
                sizes,
                pend_mask: v["pend_mask"].as_u64().unwrap_or(0) as u32,
                pend_period: v["pend_period"].as_u64().unwrap_or(0) as u8,
                hint_exact: v["hint_exact"].as_bool().unwrap_or(false),
            },
            fault,
            slow_calls: v["slow_calls"].as_bool().unwrap_or(false),
            content_mode: v["content_mode"].as_u64().unwrap_or(0) as u8,
        }
    }
}

#[derive(Default, Debug, Clone)]
pub struct EntRec {
    pub get_range: Vec<(u64, u64)>,
    pub add_headers: usize,
    pub stream_polls: u64,
    pub polls_after_finish: u64,
    pub len_calls: u64,
}

/// What the harness entity can use as `Entity::Data`.
pub trait HData: bytes::Buf + From<Vec<u8>> + From<&'static [u8]> + Send + Sync + 'static {}
impl<T: bytes::Buf + From<Vec<u8>> + From<&'static [u8]> + Send + Sync + 'static> HData for T {}

pub struct MonEntity<D = Bytes> {
    pub spec: Arc<EntSpec>,
    pub rec: Arc<Mutex<EntRec>>,
    _d: std::marker::PhantomData<fn() -> D>,
}

impl<D> MonEntity<D> {
    pub fn new(spec: EntSpec) -> (MonEntity<D>, Arc<Mutex<EntRec>>) {
        let rec = Arc::new(Mutex::new(EntRec::default()));
        (
            MonEntity {
                spec: Arc::new(spec),
                rec: rec.clone(),
                _d: std::marker::PhantomData,
            },
            rec,
        )
    }
}

struct RangeStream<D> {
    _d: std::marker::PhantomData<fn() -> D>,
    spec: Arc<EntSpec>,
    rec: Arc<Mutex<EntRec>>,
    start: u64,
    len: u64,
    /// bytes of the range delivered so far (not counting junk)
    done: u64,
    polls: u64,
    chunks: usize,
    fault: Option<Fault>,
    finished: bool,
    extra_sent: bool,
    empty_run: u32,
}

impl<D: HData> Stream for RangeStream<D> {
    type Item = Result<D, BoxError>;

    fn size_hint(&self) -> (usize, Option<usize>) {
        if !self.spec.plan.hint_exact {
            return (0, None);
        }
        if self.finished {
            return (0, Some(0));
        }
        // number of items is unknown (chunking), but "no more items" is known exactly
        let real_end = match &self.fault {
            Some(f) if matches!(f.kind, FaultKind::EarlyEnd) => f.at.min(self.len),
            _ => self.len,
        };
        if self.done >= real_end && !matches!(self.fault.as_ref().map(|f| &f.kind), Some(FaultKind::Err) | Some(FaultKind::Panic) | Some(FaultKind::ExtraChunk)) {
            (0, Some(0))
        } else {
            (1, Some((real_end - self.done).max(1) as usize + 1))
        }
    }

    fn poll_next(self: Pin<&mut Self>, cx: &mut Context<'_>) -> Poll<Option<Self::Item>> {
        let this = Pin::into_inner(self);
        {
            let mut r = this.rec.lock().unwrap();
            r.stream_polls += 1;
            if this.finished {
                r.polls_after_finish += 1;
            }
        }
        if this.finished {
            // Fused, as the properties assume of entity streams.
            return Poll::Ready(None);
        }
        let k = this.polls;
        this.polls += 1;
        let plan = &this.spec.plan;
        if plan.pend_period > 0 && k < 4096 && (plan.pend_mask >> (k % plan.pend_period as u64)) & 1 == 1 {
            cx.waker().wake_by_ref();
            return Poll::Pending;
        }
        let remaining = this.len - this.done;
        // Fault that triggers exactly here?
        if let Some(f) = &this.fault {
            if this.done == f.at || (matches!(f.kind, FaultKind::ExtraChunk) && remaining == 0) {
                match f.kind {
                    FaultKind::EarlyEnd => {
                        this.finished = true;
                        return Poll::Ready(None);
                    }
                    FaultKind::Err => {
                        this.finished = true;
                        return Poll::Ready(Some(Err("injected entity error".into())));
                    }
                    FaultKind::Panic => {
                        this.finished = true;
                        std::panic::resume_unwind(Box::new("injected entity panic".to_string()));
                    }
                    FaultKind::ExtraByte if f.at == 0 && !this.extra_sent => {
                        this.extra_sent = true;
                        return Poll::Ready(Some(Ok(D::from(vec![0xEE]))));
                    }
                    FaultKind::ExtraChunk if remaining == 0 => {
                        if !this.extra_sent {
                            this.extra_sent = true;
                            return Poll::Ready(Some(Ok(D::from(vec![0xEE]))));
                        }
                    }
                    _ => {}
                }
            }
        }
        if remaining == 0 {
            this.finished = true;
            return Poll::Ready(None);
        }
        let want = if plan.sizes.is_empty() {
            remaining
        } else {
            let s = &plan.sizes[this.chunks % plan.sizes.len()];
            match s {
                Sz::Abs(n) => *n as u64,
                Sz::Rem(n) => remaining.saturating_sub(*n as u64),
            }
        };
        this.chunks += 1;
        // a plan whose sizes all come out as 0 near the end of a range (e.g. Rem(k) with <= k bytes
        // left) must not yield empty chunks forever: the entity contract requires progress. Runs
        // of empty chunks that the plan spells out are honoured.
        let want = if want == 0 {
            this.empty_run += 1;
            if this.empty_run > plan.sizes.len() as u32 + 3 { remaining } else { 0 }
        } else {
            this.empty_run = 0;
            want
        };
        let mut n = want.min(remaining).min(MAX_CHUNK);
        let mut junk = false;
        if let Some(f) = &this.fault {
            if f.at > this.done && f.at <= this.done + n && !matches!(f.kind, FaultKind::ExtraChunk) {
                n = f.at - this.done;
                if matches!(f.kind, FaultKind::ExtraByte) && !this.extra_sent {
                    junk = true;
                }
            } else if f.at > this.done && n == 0 {
                // empty chunk before the fault point: fine
            }
        }
        let mut v = content_mode(this.spec.content_mode, this.start + this.done, n as usize);
        if junk {
            v.push(0xEE);
            this.extra_sent = true;
        }
        this.done += n;
        Poll::Ready(Some(Ok(D::from(v))))
    }
}

fn wait_for_next_second() {
    let start = SystemTime::now().duration_since(UNIX_EPOCH).map(|d| d.as_secs()).unwrap_or(0);
    for _ in 0..3000 {
        let now = SystemTime::now().duration_since(UNIX_EPOCH).map(|d| d.as_secs()).unwrap_or(0);
        if now != start {
            return;
        }
        std::thread::sleep(Duration::from_millis(1));
    }
}

impl<D: HData> http_serve::Entity for MonEntity<D> {
    type Error = BoxError;
    type Data = D;

    fn len(&self) -> u64 {
        if self.spec.slow_calls {
            wait_for_next_second();
        }
        if let Some(Fault { shrunk_len: Some(l), .. }) = &self.spec.fault {
            let mut r = self.rec.lock().unwrap();
            r.len_calls += 1;
            if r.len_calls > 1 {
                return *l;
            }
        }
        self.spec.len
    }

    fn get_range(
        &self,
        range: Range<u64>,
    ) -> Pin<Box<dyn Stream<Item = Result<D, BoxError>> + Send + Sync>> {
        let call = {
            let mut r = self.rec.lock().unwrap();
            r.get_range.push((range.start, range.end));
            r.get_range.len() - 1
        };
        let fault = self.spec.fault.clone().filter(|f| f.call == call);
        let overrun = match &fault {
            Some(Fault { kind: FaultKind::Overrun, at, .. }) => *at,
            _ => 0,
        };
        let fault = fault.filter(|f| f.kind != FaultKind::Overrun);
        Box::pin(RangeStream::<D> {
            _d: std::marker::PhantomData,
            spec: self.spec.clone(),
            rec: self.rec.clone(),
            start: range.start,
            len: range.end.saturating_sub(range.start).saturating_add(overrun),
            done: 0,
            polls: 0,
            chunks: 0,
            fault,
            finished: false,
            extra_sent: false,
            empty_run: 0,
        })
    }

    fn add_headers(&self, h: &mut HeaderMap) {
        if self.spec.slow_calls {
            wait_for_next_second();
        }
        self.rec.lock().unwrap().add_headers += 1;
        for (k, v) in &self.spec.hdrs {
            if let (Ok(k), Ok(v)) = (
                HeaderName::from_bytes(k.as_bytes()),
                HeaderValue::from_bytes(v),
            ) {
                h.append(k, v);
            }
        }
    }

    fn etag(&self) -> Option<HeaderValue> {
        if self.spec.slow_calls {
            wait_for_next_second();
        }
        self.spec
            .etag
            .as_ref()
            .and_then(|e| HeaderValue::from_bytes(e).ok())
    }

    fn last_modified(&self) -> Option<SystemTime> {
        if self.spec.slow_calls {
            wait_for_next_second();
        }
        self.spec.mtime_systime()
    }
}
