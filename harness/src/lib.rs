//! hsv: runtime-monitoring harness for http-serve (library part, shared with the fuzz targets).

pub mod alloc;
pub mod bodymon;
pub mod driver;
pub mod e1;
pub mod e2;
pub mod e3;
pub mod ent;
pub mod gen;
pub mod model;
pub mod p_cross;
pub mod p_dir;
pub mod p_file;
pub mod p_negot;
pub mod p_sched;
pub mod p_serve;
pub mod p_stream;
pub mod segbuf;
pub mod util;
pub mod fuzzdec;

use driver::Prop;

pub fn props() -> Vec<Box<dyn Prop>> {
    let mut v: Vec<Box<dyn Prop>> = Vec::new();
    p_serve::register(&mut v);
    p_stream::register(&mut v);
    p_sched::register(&mut v);
    p_cross::register(&mut v);
    p_negot::register(&mut v);
    p_file::register(&mut v);
    p_dir::register(&mut v);
    v
}
