"""Build/run legs for ./check: native, release-plain, miri, asan, tsan, memcheck, fuzz, zlib.

A leg returns the harness's result JSON (possibly merged over shards) or
{"inconclusive": reason}. A sanitizer report is turned into a violation entry only if it
names a frame under the repository's src/ and reproduces on a second run.
"""
import glob
import json
import os
import re
import shutil
import subprocess
import tempfile
import time

NCPU = os.cpu_count() or 4
TARGET = "x86_64-unknown-linux-gnu"

# thorough-tier legs per property (DESIGN section 9); quick tier = native (+ memcheck for C18/C19)
THOROUGH = {
    "C01": ["release-plain", "miri", "fuzz"],
    "C02": ["release-plain", "miri", "fuzz"],
    "C03": ["release-plain", "miri", "fuzz"],
    "C04": ["miri"],
    "C05": ["miri"],
    "C06": ["release-plain", "miri", "fuzz"],
    "C07": ["release-plain", "miri"],
    "C08": ["miri", "asan"],
    "C09": ["miri", "asan", "zlib"],
    "C10": ["tsan", "miri"],
    "C11": ["tsan", "miri"],
    "C12": ["miri", "tsan"],
    "C13": ["release-plain", "miri", "fuzz"],
    "C14": ["miri"],
    "C15": [],
    "C16": ["miri", "fuzz"],
    "C17": ["asan"],
    "C18": ["memcheck", "miri", "asan"],
    "C19": ["memcheck", "asan"],
    "C20": ["release-plain", "miri"],
}
# quick tier: native, plus plain release where the crate's own debug assertions would otherwise turn a
# wrong length into a panic (which C01/C06/C12 do not judge), plus memcheck for the unsafe file/dir code
QUICK_EXTRA = {"C01": ["release-plain"], "C06": ["release-plain"], "C07": ["release-plain"], "C12": ["release-plain"], "C20": ["release-plain"],
               "C18": ["memcheck"], "C19": ["memcheck"]}

# per-leg case budgets (cases per shard process) for the slow tools
MIRI_SHARDS = NCPU
MIRI_CASES = {"default": 400, "C09": 60, "C16": 2000}
MIRI_SECONDS = 240
MEMCHECK_CASES = {"quick": 150, "thorough": 6000}


class Env:
    def __init__(self, verif, harness, out, repo_override):
        self.verif, self.harness, self.out = verif, harness, out
        self.scratch = None
        self.repo = "/repo"
        if repo_override and os.path.realpath(repo_override) != "/repo":
            # scratch copy of the harness whose path dependency points at the given tree
            self.repo = repo_override
            fixed = os.environ.get("HSV_SCRATCH_DIR")
            self.keep = bool(fixed)
            if fixed:
                # reusable scratch (keeps the build between invocations); sources refreshed
                self.scratch = fixed
                os.makedirs(fixed, exist_ok=True)
                for sub in ("harness/src", "fuzz/fuzz_targets"):
                    shutil.rmtree(os.path.join(fixed, sub), ignore_errors=True)
            else:
                self.scratch = tempfile.mkdtemp(prefix="hsv-scratch-")
            h2 = os.path.join(self.scratch, "harness")
            shutil.copytree(harness, h2, ignore=shutil.ignore_patterns("target*"), dirs_exist_ok=True)
            ct = open(os.path.join(h2, "Cargo.toml")).read().replace('path = "/repo"', 'path = "%s"' % repo_override)
            open(os.path.join(h2, "Cargo.toml"), "w").write(ct)
            f2 = os.path.join(self.scratch, "fuzz")
            if os.path.isdir(os.path.join(verif, "fuzz")):
                shutil.copytree(os.path.join(verif, "fuzz"), f2, ignore=shutil.ignore_patterns("target", "corpus", "artifacts"), dirs_exist_ok=True)
                ct = open(os.path.join(f2, "Cargo.toml")).read().replace('path = "/repo"', 'path = "%s"' % repo_override)
                open(os.path.join(f2, "Cargo.toml"), "w").write(ct)
            self.harness = h2
            self.out = os.path.join(self.scratch, "out")
            os.makedirs(self.out, exist_ok=True)
        self.fuzz = os.path.join(self.scratch, "fuzz") if self.scratch else os.path.join(verif, "fuzz")
        self.built = {}

    def cleanup(self):
        if self.scratch and not os.environ.get("HSV_KEEP_SCRATCH") and not getattr(self, "keep", False):
            shutil.rmtree(self.scratch, ignore_errors=True)


def plan_for(pid, tier, only, replay=False):
    names = ["native"]
    if not replay:
        names += QUICK_EXTRA.get(pid, []) if tier == "quick" else THOROUGH.get(pid, [])
    seen, plan = set(), []
    for n in names:
        if n in seen or (only and n not in only):
            continue
        seen.add(n)
        plan.append({"name": n})
    return plan


def base_env():
    e = dict(os.environ)
    e["CARGO_NET_OFFLINE"] = "true"
    e.pop("RUSTFLAGS", None)
    return e


def run(cmd, cwd, env, timeout, capture=True):
    try:
        p = subprocess.run(cmd, cwd=cwd, env=env, timeout=timeout, stdout=subprocess.PIPE if capture else None,
                           stderr=subprocess.STDOUT if capture else None, text=True, errors="replace")
        return p.returncode, p.stdout or ""
    except subprocess.TimeoutExpired as e:
        out = e.stdout if isinstance(e.stdout, str) else (e.stdout or b"").decode("utf8", "replace")
        return None, out


def build(env, leg):
    """Returns (binary path or runner prefix list, None) or (None, reason)."""
    if leg in env.built:
        return env.built[leg]
    e = base_env()
    h = env.harness
    if leg in ("native", "memcheck"):
        cmd = ["cargo", "build", "--offline", "--profile", "verif"]
        binp = os.path.join(h, "target", "verif", "hsv")
    elif leg == "release-plain":
        cmd = ["cargo", "build", "--offline", "--release"]
        binp = os.path.join(h, "target", "release", "hsv")
    elif leg == "asan":
        e["RUSTFLAGS"] = "-Zsanitizer=address -Cforce-frame-pointers=yes"
        e["CARGO_TARGET_DIR"] = os.path.join(h, "target-asan")
        cmd = ["cargo", "+nightly", "build", "--offline", "--profile", "verif", "--target", TARGET]
        binp = os.path.join(h, "target-asan", TARGET, "verif", "hsv")
    elif leg == "tsan":
        e["RUSTFLAGS"] = "-Zsanitizer=thread"
        e["CARGO_TARGET_DIR"] = os.path.join(h, "target-tsan")
        cmd = ["cargo", "+nightly", "build", "--offline", "-Zbuild-std", "--profile", "verif", "--target", TARGET]
        binp = os.path.join(h, "target-tsan", TARGET, "verif", "hsv")
    elif leg == "miri":
        e["CARGO_TARGET_DIR"] = os.path.join(h, "target-miri")
        e["MIRIFLAGS"] = "-Zmiri-disable-isolation"
        # building = running a trivial command once so that the shards do not race on the build
        cmd = ["cargo", "+nightly", "miri", "run", "--offline", "--", "list"]
        binp = "miri"
    else:
        return None, "unknown leg " + leg
    rc, out = run(cmd, h, e, 1800)
    if rc != 0:
        res = (None, "build failed for leg %s (rc %s): %s" % (leg, rc, out[-1500:].replace("\n", " | ")))
    else:
        res = (binp, None)
    env.built[leg] = res
    return res


def merge(results):
    """Merge shard result files."""
    if not results:
        return None
    m = dict(results[0])
    m["samples"] = list(m.get("samples", []))
    m["violations"] = list(m.get("violations", []))
    for r in results[1:]:
        for k in ("evaluations", "blocks_run"):
            m[k] = m.get(k, 0) + r.get(k, 0)
        m["distinct_nontrivial"] = m.get("distinct_nontrivial", 0) + r.get("distinct_nontrivial", 0)  # shards are disjoint
        m["wall_s"] = max(m.get("wall_s", 0), r.get("wall_s", 0))
        for key in ("counters", "dont_care"):
            for k, v in r.get(key, {}).items():
                if k.startswith("max_"):
                    m[key][k] = max(m[key].get(k, 0), v)
                else:
                    m[key][k] = m[key].get(k, 0) + v
        for k, v in r.get("cross_notes", {}).items():
            if k in m["cross_notes"]:
                m["cross_notes"][k]["count"] += v["count"]
            else:
                m["cross_notes"][k] = v
        m["samples"] += r.get("samples", [])
        have = {v["signature"]: v for v in m["violations"]}
        for v in r.get("violations", []):
            if v["signature"] in have:
                have[v["signature"]]["count"] += v["count"]
            else:
                m["violations"].append(v)
    m["samples"] = m["samples"][:10]
    m["exhaustive"] = False
    return m


SAN_PATTERNS = [
    (re.compile(r"ERROR: AddressSanitizer: ([\w-]+)"), "asan"),
    (re.compile(r"ERROR: LeakSanitizer: (detected memory leaks)"), "lsan"),
    (re.compile(r"WARNING: ThreadSanitizer: ([\w -]+?) \("), "tsan"),
    (re.compile(r"error: Undefined Behavior: (.{0,120})"), "miri-ub"),
    (re.compile(r"error: (memory leaked|deadlock)(.{0,80})"), "miri"),
    (re.compile(r"error: unsupported operation: (.{0,120})"), "miri-unsupported"),
    (re.compile(r"==\d+== (Invalid (?:read|write) of size \d+|Conditional jump or move depends on uninitialised value|Syscall param .{0,60} uninitialised|Use of uninitialised value of size \d+|Invalid free|Mismatched free|.{0,40}definitely lost in loss record)"), "memcheck"),
]


def sanitizer_report(text, repo):
    """(kind, first in-repo frame or None, excerpt) if the output contains a sanitizer report."""
    for pat, tool in SAN_PATTERNS:
        m = pat.search(text)
        if not m:
            continue
        tail = text[m.start():m.start() + 6000]
        fm = re.search(r"(?:%s|/repo)/src/(\w+\.rs):(\d+)" % re.escape(repo), tail)
        frame = ("src/%s:%s" % (fm.group(1), fm.group(2))) if fm else None
        return "%s:%s" % (tool, re.sub(r"\s+", " ", m.group(1)).strip()[:60]), frame, tail[:2500]
    return None


def run_hsv(env, leg, binp, pid, tier, seed, replay, extra, outfile, timeout, runner_env=None, prefix=None):
    args = [pid, "--tier", tier, "--seed", str(seed), "--leg", leg, "--out", outfile] + extra
    if replay:
        args += ["--replay", replay]
    e = base_env()
    e.update(runner_env or {})
    if binp == "miri":
        e["CARGO_TARGET_DIR"] = os.path.join(env.harness, "target-miri")
        e.setdefault("MIRIFLAGS", "-Zmiri-disable-isolation")
        cmd = ["cargo", "+nightly", "miri", "run", "--offline", "--"] + args
    else:
        cmd = (prefix or []) + [binp] + args
    if os.path.exists(outfile):
        os.remove(outfile)
    t0 = time.time()
    rc, out = run(cmd, env.harness, e, timeout)
    return rc, out, time.time() - t0


def finish_leg(env, leg, pid, rc, out, outfile, rerun):
    """Interpret one process's outcome."""
    rep = sanitizer_report(out, env.repo)
    if rep:
        kind, frame, excerpt = rep
        if kind.startswith("miri-unsupported"):
            return {"inconclusive": "%s (tool limitation, not a finding)" % kind}
        if frame is None:
            return {"inconclusive": "%s report without a frame under the repository's src/: %s" % (kind, excerpt[:400].replace("\n", " | "))}
        # must reproduce
        rc2, out2 = rerun()
        rep2 = sanitizer_report(out2, env.repo)
        if not rep2 or rep2[0] != kind:
            return {"inconclusive": "%s at %s did not reproduce on a second run" % (kind, frame)}
        return {"sanitizer_violation": {"signature": "%s|%s|%s" % (leg, kind, frame), "count": 1,
                                        "message": "%s leg: %s, first repository frame %s\n%s" % (leg, kind, frame, excerpt),
                                        "case": {"sanitizer_leg": leg, "note": "re-run the leg to reproduce"}}}
    if rc is None:
        return {"inconclusive": "watchdog fired"}
    if rc in (-4, -6, -7, -11) and leg in ("native", "release-plain"):
        # The harness is safe Rust and catches panics: a process killed by SIGILL/SIGABRT/SIGBUS/
        # SIGSEGV died inside the code under test (unsafe code, or a panic inside a destructor
        # while unwinding). Believed only if it happens again.
        os.environ["HSV_PANIC_STDERR"] = "1"
        try:
            rc2, out2 = rerun()
        finally:
            os.environ.pop("HSV_PANIC_STDERR", None)
        if rc2 == rc:
            panics = [l for l in out2.splitlines() if l.startswith("panic: ")]
            last = panics[-1][7:] if panics else ""
            loc = re.sub(r"^\S*/src/", "src/", last.split(" ")[0]) if last else "?"
            return {"evaluations": 0, "distinct_nontrivial": 0, "counters": {}, "dont_care": {}, "cross_notes": {}, "wall_s": 0,
                    "violations": [{"signature": "process-crash|signal%d|%s" % (-rc, loc), "count": 1,
                                    "message": "the harness process was killed by signal %d twice in a row while running this workload (last panic before it: %s); stderr tail: %s" % (-rc, last[:300], out2[-400:].replace("\n", " | ")),
                                    "case": {"process_crash": True, "leg": leg, "note": "re-run the check to reproduce"}}]}
        return {"inconclusive": "harness killed by signal %d once, not on the second run" % -rc}
    if rc != 0 or not os.path.exists(outfile):
        return {"inconclusive": "harness exited with status %s: %s" % (rc, out[-600:].replace("\n", " | "))}
    return json.load(open(outfile))


def run_leg(env, leg, pid, tier, seed, replay):
    name = leg["name"]
    if name == "fuzz":
        import fuzzleg
        return fuzzleg.run(env, pid, tier, seed)
    if name == "zlib":
        import zlibleg
        return zlibleg.run(env, pid, tier, seed)
    binp, why = build(env, name)
    if binp is None:
        return {"inconclusive": why}
    of = lambda suffix="": os.path.join(env.out, "%s.%s%s.json" % (pid, name, suffix))
    if name in ("native", "release-plain"):
        timeout = 900 if tier == "quick" else 5400
        rc, out, _ = run_hsv(env, name, binp, pid, tier, seed, replay, [], of(), timeout)
        r = finish_leg(env, name, pid, rc, out, of(), lambda: run_hsv(env, name, binp, pid, tier, seed, replay, [], of(), timeout)[:2])
        return r
    if name == "memcheck":
        n = MEMCHECK_CASES[tier]
        extra = ["--threads", "1", "--max-cases", str(n)]
        prefix = ["valgrind", "--quiet", "--error-exitcode=97", "--leak-check=no", "--track-origins=yes", "--fullpath-after=", "--num-callers=40"]
        timeout = 900 if tier == "quick" else 3600
        call = lambda: run_hsv(env, name, binp, pid, tier, seed, replay, extra, of(), timeout, prefix=prefix)
        rc, out, _ = call()
        return san_result(finish_leg(env, name, pid, rc, out, of(), lambda: call()[:2]), name)
    if name in ("asan", "tsan"):
        renv = {"ASAN_OPTIONS": "halt_on_error=1:abort_on_error=0:detect_leaks=1:exitcode=98",
                "TSAN_OPTIONS": "halt_on_error=1:exitcode=66:second_deadlock_stack=1"}
        # sanitizer builds are 3-10x slower: run a slice of the thorough workload
        extra = ["--stride", "5"] if (name == "asan" and pid in ("C08", "C09")) else []
        call = lambda: run_hsv(env, name, binp, pid, tier, seed, replay, extra, of(), 3600, runner_env=renv)
        rc, out, _ = call()
        return san_result(finish_leg(env, name, pid, rc, out, of(), lambda: call()[:2]), name)
    if name == "miri":
        n = MIRI_CASES.get(pid, MIRI_CASES["default"])
        shards = MIRI_SHARDS
        procs = []
        e = base_env()
        e["CARGO_TARGET_DIR"] = os.path.join(env.harness, "target-miri")
        e["MIRIFLAGS"] = "-Zmiri-disable-isolation"
        for i in range(shards):
            o = of(".%d" % i)
            if os.path.exists(o):
                os.remove(o)
            cmd = ["cargo", "+nightly", "miri", "run", "--offline", "--", pid, "--tier", tier, "--seed", str(seed), "--leg", "miri",
                   "--threads", "1", "--shard", "%d/%d" % (i, shards), "--max-cases", str(n), "--time-budget", str(MIRI_SECONDS), "--out", o]
            procs.append((i, o, cmd, subprocess.Popen(cmd, cwd=env.harness, env=e, stdout=subprocess.PIPE, stderr=subprocess.STDOUT, text=True, errors="replace")))
        parts, bad = [], []
        rerun_cache = {}  # one confirming re-run per leg (reports of several shards are the same report)
        deadline = time.time() + MIRI_SECONDS * 3 + 120  # a shard stuck in one long case is cut off (inconclusive shard)
        for i, o, cmd, p in procs:
            try:
                out, _ = p.communicate(timeout=max(1, deadline - time.time()))
                rc = p.returncode
            except subprocess.TimeoutExpired:
                p.kill()
                out, _ = p.communicate()
                rc = None

            def rerun(cmd=cmd):
                if "r" not in rerun_cache:
                    rerun_cache["r"] = run(cmd, env.harness, e, MIRI_SECONDS * 3 + 120)
                return rerun_cache["r"]
            r = finish_leg(env, name, pid, rc, out, o, rerun)
            if "inconclusive" in r:
                bad.append("shard %d: %s" % (i, r["inconclusive"]))
            else:
                parts.append(r)
        svs = [p["sanitizer_violation"] for p in parts if "sanitizer_violation" in p]
        parts = [p for p in parts if "sanitizer_violation" not in p]
        if not parts and not svs:
            return {"inconclusive": "; ".join(bad)[:1500]}
        m = merge(parts) or {"evaluations": 0, "distinct_nontrivial": 0, "violations": [], "counters": {}, "dont_care": {}, "cross_notes": {}, "wall_s": 0}
        seen = set()
        for sv in svs:
            if sv["signature"] not in seen:
                seen.add(sv["signature"])
                m["violations"].append(sv)
        m["extra"] = {"shards": shards, "shards_inconclusive": bad, "cases_per_shard": n}
        return m
    return {"inconclusive": "unknown leg"}


def san_result(r, leg):
    if "sanitizer_violation" in r:
        return {"evaluations": 0, "distinct_nontrivial": 0, "violations": [r["sanitizer_violation"]], "counters": {}, "dont_care": {}, "cross_notes": {}, "wall_s": 0}
    return r
