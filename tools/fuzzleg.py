"""libFuzzer + ASan leg (thorough tier of C13 and C16). A crash artifact is believed only if the
native harness reproduces the violation from it; timeouts / OOMs are inconclusive."""
import glob
import json
import os
import re
import shutil
import subprocess
import time

import legs

TARGETS = {"C13": ("serve", 120), "C16": ("should_gzip", 60), "C01": ("serve", 60), "C02": ("serve", 60), "C03": ("serve", 90), "C06": ("serve", 60)}


def run(env, pid, tier, seed):
    if pid not in TARGETS:
        return {"inconclusive": "no fuzz target for " + pid}
    target, secs = TARGETS[pid]
    fz = env.fuzz
    e = legs.base_env()
    e["CARGO_TARGET_DIR"] = os.path.join(fz, "target")
    e["HSV_FUZZ_PROP"] = pid
    art = os.path.join(env.out, "fuzz-%s" % pid)
    corpus = os.path.join(fz, "corpus", "%s-%s" % (target, pid))
    shutil.rmtree(art, ignore_errors=True)
    os.makedirs(art, exist_ok=True)
    os.makedirs(corpus, exist_ok=True)
    rc, out = legs.run(["cargo", "+nightly", "fuzz", "build", "--fuzz-dir", fz, target], env.harness, e, 1800)
    if rc != 0:
        return {"inconclusive": "fuzz build failed (rc %s): %s" % (rc, out[-1200:].replace("\n", " | "))}
    t0 = time.time()
    cmd = ["cargo", "+nightly", "fuzz", "run", "--fuzz-dir", fz, target, corpus, "--",
           "-max_total_time=%d" % secs, "-timeout=10", "-seed=%d" % (seed + 1), "-fork=%d" % min(8, legs.NCPU),
           "-rss_limit_mb=4096", "-max_len=512", "-artifact_prefix=%s/" % art, "-ignore_crashes=1", "-ignore_timeouts=1", "-ignore_ooms=1"]
    rc, out = legs.run(cmd, env.harness, e, secs + 600)
    wall = time.time() - t0
    execs = [int(x) for x in re.findall(r"#(\d+):", out)]
    corp = [int(x) for x in re.findall(r"corp: (\d+)", out)]
    cov = [int(x) for x in re.findall(r"cov: (\d+)", out)]
    crashes = sorted(glob.glob(os.path.join(art, "crash-*")))
    others = sorted(glob.glob(os.path.join(art, "timeout-*")) + glob.glob(os.path.join(art, "oom-*")))
    if not execs and not crashes:
        return {"inconclusive": "fuzzer produced no statistics (rc %s): %s" % (rc, out[-800:].replace("\n", " | "))}
    violations, unreproduced = [], []
    binp, why = legs.build(env, "native")
    for c in crashes[:20]:
        if binp is None:
            unreproduced.append(os.path.basename(c) + ": native build failed")
            continue
        o = os.path.join(env.out, "%s.fuzzreplay.json" % pid)
        rc2, out2 = legs.run([binp, pid, "--fuzz-artifact", c, "--out", o], env.harness, legs.base_env(), 300)
        try:
            r = json.load(open(o))
        except Exception:  # noqa: BLE001
            unreproduced.append(os.path.basename(c) + ": native replay failed: " + out2[-200:])
            continue
        if r.get("violations"):
            for v in r["violations"]:
                v["message"] = "[found by libFuzzer, artifact %s] %s" % (os.path.basename(c), v["message"])
                if not any(x["signature"] == v["signature"] for x in violations):
                    violations.append(v)
        else:
            unreproduced.append(os.path.basename(c) + ": did not reproduce natively")
    return {
        "property_id": pid, "level": "exploration", "tier": tier, "leg": "fuzz", "seed": seed,
        "evaluations": max(execs) if execs else 0,
        "distinct_nontrivial": max(corp) if corp else 0,
        "rule": "libFuzzer (fork mode) + AddressSanitizer on target '%s' for %d s; distinct = corpus entries (inputs that reached new coverage)" % (target, secs),
        "counters": {"coverage_edges": max(cov) if cov else 0, "crash_artifacts": len(crashes), "timeout_or_oom_artifacts": len(others)},
        "dont_care": {}, "cross_notes": {}, "samples": [], "violations": violations, "floors_missed": [], "assumptions": [],
        "extra": {"unreproduced_artifacts": unreproduced, "timeout_or_oom": [os.path.basename(x) for x in others]},
        "wall_s": wall,
    }
