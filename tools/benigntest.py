#!/usr/bin/env python3
"""No check may raise an alarm on behaviour-preserving edits (tools/mutants_benign.py).
  tools/benigntest.py [-j N] [--only a,b]
For each edit: scratch worktree, apply, build check (cargo check --features dir), then every
registered quick check against it. A VIOLATION is a false alarm to be fixed in the machinery."""
import concurrent.futures as cf, json, os, shutil, subprocess, sys, time
VERIF = os.path.dirname(os.path.dirname(os.path.abspath(__file__)))
sys.path.insert(0, os.path.join(VERIF, "tools"))
from mutants_benign import B  # noqa: E402
ROOT = "/tmp/hsvben"


def sh(cmd, cwd=None, env=None, timeout=3600):
    p = subprocess.run(cmd, cwd=cwd, env=env, stdout=subprocess.PIPE, stderr=subprocess.STDOUT, text=True, timeout=timeout)
    return p.returncode, p.stdout


def one(m):
    name = m["name"]; wt = os.path.join(ROOT, name); res = {"name": name, "note": m["note"], "alarms": {}, "inconclusive": {}}
    try:
        sh(["git", "-C", "/repo", "worktree", "remove", "--force", wt]); shutil.rmtree(wt, ignore_errors=True)
        sh(["git", "-C", "/repo", "worktree", "add", "--detach", wt, "HEAD"])
        for f, old, new in m["edits"]:
            p = os.path.join(wt, f); s = open(p).read()
            if old not in s:
                res["error"] = "pattern not found in %s: %r" % (f, old[:60]); return res
            open(p, "w").write(s.replace(old, new, 1))
        rc, out = sh(["cargo", "check", "--offline", "--features", "dir,verif-hooks"], cwd=wt, env=dict(os.environ, CARGO_TARGET_DIR=os.path.join(wt, "target")))
        shutil.rmtree(os.path.join(wt, "target"), ignore_errors=True)
        if rc != 0:
            res["error"] = "does not compile: " + out[-400:]; return res
        env = dict(os.environ, HSV_SCRATCH_DIR="/tmp/hsv-scratch-ben-" + name)
        ids = [c["property_id"] for c in json.load(open(os.path.join(VERIF, "MANIFEST.json")))["checks"]]
        for pid in ids:
            rc, out = sh([os.path.join(VERIF, "check"), pid, "--tier", "quick", "--repo", wt], cwd=VERIF, env=env)
            if rc == 1:
                res["alarms"][pid] = [l.strip()[:300] for l in out.splitlines() if l.strip().startswith("[")][:3]
            elif rc != 0:
                res["inconclusive"][pid] = out[-300:]
    except Exception as e:  # noqa: BLE001
        res["error"] = repr(e)
    finally:
        sh(["git", "-C", "/repo", "worktree", "remove", "--force", wt]); shutil.rmtree(wt, ignore_errors=True)
        shutil.rmtree("/tmp/hsv-scratch-ben-" + name, ignore_errors=True)
    return res


def main():
    a = sys.argv[1:]; j = int(a[a.index("-j") + 1]) if "-j" in a else 3
    only = set(a[a.index("--only") + 1].split(",")) if "--only" in a else None
    os.makedirs(ROOT, exist_ok=True)
    out = []
    with cf.ThreadPoolExecutor(max_workers=j) as ex:
        for r in ex.map(one, [m for m in B if only is None or m["name"] in only]):
            out.append(r)
            print("%-40s %s" % (r["name"], "ERROR " + r["error"][:200] if "error" in r else ("FALSE ALARMS %s" % r["alarms"] if r["alarms"] else "silent") + (" inconclusive: %s" % list(r["inconclusive"]) if r["inconclusive"] else "")), flush=True)
    json.dump(out, open(os.path.join(VERIF, "benigntest.json"), "w"), indent=1)
    shutil.rmtree(ROOT, ignore_errors=True)


if __name__ == "__main__":
    main()
