"""Offline re-check of recorded gzip histories with Python's zlib (thorough tier of C09): an
inflater that shares no code with flate2/miniz_oxide."""
import json
import os
import time
import zlib

import legs


def run(env, pid, tier, seed):
    binp, why = legs.build(env, "native")
    if binp is None:
        return {"inconclusive": why}
    dump = os.path.join(env.out, "%s.gzdump.jsonl" % pid)
    if os.path.exists(dump):
        os.remove(dump)
    e = legs.base_env()
    e["HSV_GZ_DUMP"] = dump
    e["HSV_GZ_DUMP_MAX"] = str(300 << 20)
    o = os.path.join(env.out, "%s.zlibrun.json" % pid)
    t0 = time.time()
    rc, out = legs.run([binp, pid, "--tier", "quick", "--seed", str(seed + 7), "--out", o], env.harness, e, 1800)
    if rc != 0 or not os.path.exists(dump):
        return {"inconclusive": "recording run failed (rc %s): %s" % (rc, out[-400:])}
    n = marks = 0
    violations = []
    samples = []
    with open(dump) as f:
        for line in f:
            try:
                h = json.loads(line)
            except Exception:  # noqa: BLE001
                continue
            stream, plain = bytes.fromhex(h["stream"]), bytes.fromhex(h["plain"])
            n += 1
            problem = None
            if h.get("failed"):
                pass  # a history the in-process oracle already rejected; re-judged below like any other
            d = zlib.decompressobj(wbits=31)
            try:
                got = d.decompress(stream)
                if not h.get("prefix_only"):
                    if got != plain:
                        problem = "decompresses to %d bytes, %d were written" % (len(got), len(plain))
                    elif not d.eof:
                        problem = "gzip member not terminated"
                    elif d.unused_data:
                        problem = "%d trailing bytes after the member" % len(d.unused_data)
            except zlib.error as ex:
                problem = "zlib error: %s" % ex
            for comp_len, plain_len in h.get("flush_marks", []):
                marks += 1
                d2 = zlib.decompressobj(wbits=31)
                try:
                    part = d2.decompress(stream[:comp_len])
                except zlib.error as ex:
                    problem = problem or "prefix of %d bytes: zlib error %s" % (comp_len, ex)
                    continue
                if len(part) < plain_len or not plain.startswith(part):
                    problem = problem or "after a flush with %d bytes written, the %d bytes available decode to %d" % (plain_len, comp_len, len(part))
            if problem and len(violations) < 5:
                violations.append({"signature": "zlib-recheck|" + problem.split(" ")[0], "count": 1, "message": "Python zlib disagrees: " + problem,
                                   "case": {"stream_hex": h["stream"][:4000], "plain_len": len(plain), "flush_marks": h.get("flush_marks", [])}})
            if len(samples) < 3 and h.get("flush_marks"):
                samples.append({"stream_bytes": len(stream), "plain_bytes": len(plain), "flush_marks": h["flush_marks"][:5]})
    os.remove(dump)
    return {
        "property_id": pid, "level": "exploration", "tier": tier, "leg": "zlib", "seed": seed,
        "evaluations": n, "distinct_nontrivial": n,
        "rule": "every recorded C09 history (delivered stream, bytes written, flush marks) re-judged with Python zlib.decompressobj(wbits=31)",
        "counters": {"histories_rechecked": n, "flush_marks_rechecked": marks}, "dont_care": {}, "cross_notes": {},
        "samples": samples, "violations": violations, "floors_missed": [], "assumptions": [], "wall_s": time.time() - t0,
    }
