#!/bin/bash
# Rebuilds the scratch worktree /tmp/seed-<name> from /verif/seeded/<name> (patch + demonstration).
set -e
n=$1; d=/tmp/seed-$n
git -C /repo worktree remove --force $d 2>/dev/null || true; rm -rf $d
git -C /repo worktree add --detach $d HEAD -q
git -C $d apply /verif/seeded/$n/patch.diff
for f in /verif/seeded/$n/*.rs; do [ -e "$f" ] && cp "$f" $d/tests/; done
[ -e /verif/seeded/$n/SEEDED.md ] && cp /verif/seeded/$n/SEEDED.md $d/ || true
echo restored $d
