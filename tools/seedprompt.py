#!/usr/bin/env python3
"""Builds the brief for an independent seeding agent: property text + scratch worktree + one
paragraph per earlier seed of that property (so that the new one differs), nothing else from /verif.

  tools/seedprompt.py <round-tag> <Cxx> [<Cyy> ...]   ->  /tmp/<round-tag>/<Cxx>.prompt.txt, worktree /tmp/seed<round-tag>-<Cxx>
"""
import glob
import json
import os
import subprocess
import sys

VERIF = os.path.dirname(os.path.dirname(os.path.abspath(__file__)))
props = {json.loads(l)['id']: json.loads(l) for l in open(os.path.join(VERIF, 'properties.jsonl'))}


def earlier(pid):
    out = []
    for d in sorted(glob.glob(os.path.join(VERIF, 'seeded', '*'))):
        name = os.path.basename(d)
        try:
            m = json.load(open(d + '/meta.json'))
        except Exception:
            continue
        if m.get('breaks_property') != pid and not name.startswith(pid):
            continue
        f = d + '/SEEDED.md'
        if os.path.exists(f):
            t = open(f).read()
            i = t.lower().find('what was changed')
            if i < 0:
                i = t.lower().find('what i changed')
            if i < 0:
                i = 0
            txt = ' '.join(t[i:i + 900].split())[:600]
        else:
            p = open(d + '/patch.diff').read()
            txt = '(patch) ' + ' '.join(l for l in p.splitlines() if l.startswith(('+', '-')) and not l.startswith(('+++', '---')))[:500]
        out.append('- %s: %s' % (name, txt))
    return '\n'.join(out)


def main():
    tag, targets = sys.argv[1], sys.argv[2:]
    os.makedirs('/tmp/%s' % tag, exist_ok=True)
    for pid in targets:
        p = props[pid]
        wt = '/tmp/seed%s-%s' % (tag, pid)
        subprocess.run(['git', '-C', '/repo', 'worktree', 'add', '--detach', wt, 'HEAD', '-q'], check=True)
        prop_text = json.dumps({k: p[k] for k in ('id', 'title', 'statement', 'quantifier', 'why_tests_cant', 'anchors') if k in p}, indent=1)
        prompt = f'''You are working in a scratch git worktree of the Rust crate scottlamb/http-serve at {wt} (detached checkout, builds offline; no network). Work ONLY inside {wt}. Do not read or touch /repo, /verif or any other directory.

TASK: seed one realistic defect that breaks the following semantic property of the crate, so that a separate, independently built runtime checker can be evaluated against it. You do not know how that checker works; it knows the property text but not your change.

PROPERTY:
{prop_text}

REQUIREMENTS for your change (source files under src/ only; no new dependencies; no changes to existing tests):
1. it compiles, and the existing test suite still passes unchanged: run `cargo test --offline --workspace` and `cargo test --offline --features dir` in {wt};
2. it genuinely breaks the property for some inputs / histories / schedules, demonstrably, against the real code through the crate's public API;
3. it needs something specific to manifest: make it as hard as you can for an automated checker to stumble on (conjunctions of conditions, values far from the obvious boundaries, state carried between calls, particular sequences, sizes, header combinations, entity behaviours, API entry points other than the obvious one, features that belong to a neighbouring concern, concurrency windows ...);
4. it reads like a plausible maintenance edit (optimisation, refactor, robustness fix, small feature) that a reviewer could accept.
NOT allowed: cfg(test)/debug_assertions tricks, environment variables, wall-clock date bombs, randomness, magic constants unrelated to the code (`if len == 123457`), and anything whose trigger is a 2^-32-or-rarer coincidence of payload bytes or a hash collision (out of reach by construction, uninteresting).

EARLIER SEEDS for this property - your mechanism must be unlike all of them (different code site AND different kind of trigger):
{earlier(pid)}

DELIVERABLES, all inside {wt}, left UNCOMMITTED:
(a) the source change;
(b) `tests/seeded_demo.rs`: a demonstration that PASSES on the unchanged tree and FAILS with your change, using only the public API and the existing dev-dependencies (tokio, http-body-util, tempfile, ... see Cargo.toml); verify both directions yourself with `git diff -- src > /tmp/<your-own-name>.patch; git apply -R ...; <run>; git apply ...` - do NOT use `git stash`: the stash is shared by all worktrees of the repository and other agents work in sibling worktrees;
(c) `SEEDED.md` at the worktree root: what was changed, why it breaks the property, exactly what it needs to manifest.
Write files with your tools; do NOT paste file contents or long diffs into your messages. Keep every message short and your final report under 200 words (mechanism in two sentences, trigger conditions, confirmation that suite passes and demo fails/passes).'''
        open('/tmp/%s/%s.prompt.txt' % (tag, pid), 'w').write(prompt)
        print(pid, len(prompt))


if __name__ == '__main__':
    main()
