#!/usr/bin/env python3
import json,sys
for f in sys.argv[1:]:
    r=json.load(open(f))
    print(r['property_id'], r['tier'], r['leg'], 'evals',r['evaluations'],'nt',r['distinct_nontrivial'],'wall',round(r['wall_s'],2),'blocks',r['blocks_run'],'/',r['blocks_total'],'floors_missed',r['floors_missed'])
    print('  dont_care',r['dont_care'])
    print('  notes',{k:v['count'] for k,v in r['cross_notes'].items()})
    if '-c' in sys.argv: print('  counters',r['counters'])
    for v in r['violations']: print('  VIOL',v['signature'],v['count'],v['message'][:300])
