#!/usr/bin/env python3
"""Prints the markdown table of /verif/seeded/*/meta.json for DESIGN.md section 10.6."""
import glob, json, os, re
rows = []
for f in sorted(glob.glob('/verif/seeded/*/meta.json')):
    m = json.load(open(f)); name = m['name']
    seeded = os.path.join(os.path.dirname(f), 'SEEDED.md')
    what = ''
    patch = open(os.path.join(os.path.dirname(f), 'patch.diff')).read()
    files = sorted(set(re.findall(r'^\+\+\+ b/(\S+)', patch, re.M)))
    caught = []
    for k, v in m.get('checks', {}).items():
        caught.append('%s %s' % (k, 'caught' if v['caught'] else ('missed' if v['rc'] == 0 else 'rc=%d' % v['rc'])))
    ok = m.get('demo_passes_without_change') and m.get('demo_fails_with_change') and m.get('suite_passes_with_change')
    rows.append('| %s | %s | %s | %s | %s |' % (name, m['breaks_property'], ', '.join(files), 'yes' if ok else 'NO', '; '.join(caught)))
print('| seed | property | files | confirmed (demo fails with / passes without, suite passes) | checks run against it |')
print('|---|---|---|---|---|')
print('\n'.join(rows))
