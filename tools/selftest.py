#!/usr/bin/env python3
"""Validates the monitors against the edits in tools/mutants.py.

  tools/selftest.py [-j N] [--only name1,name2] [--skip-suite] [--update-patches]

For each mutant: a scratch git worktree of /repo under /tmp (removed afterwards), the edit
applied, (optionally) the repository's own test suite run there - a mutant that fails the suite
is not 'realistic' and is reported as such - then `./check <prop> --repo <worktree>` for each
property expected to catch it. Results go to /verif/selftest.json; patches to /verif/mutants/.
"""
import concurrent.futures as cf
import json
import os
import shutil
import subprocess
import sys
import time

VERIF = os.path.dirname(os.path.dirname(os.path.abspath(__file__)))
sys.path.insert(0, os.path.join(VERIF, "tools"))
from mutants import M  # noqa: E402

ROOT = "/tmp/hsvmut"


def sh(cmd, cwd=None, env=None, timeout=3600):
    p = subprocess.run(cmd, cwd=cwd, env=env, stdout=subprocess.PIPE, stderr=subprocess.STDOUT, text=True, timeout=timeout)
    return p.returncode, p.stdout


def one(mut, skip_suite, seeds):
    name = mut["name"]
    wt = os.path.join(ROOT, name)
    res = {"name": name, "props": mut["props"], "tier": mut["tier"], "note": mut["note"]}
    t0 = time.time()
    try:
        sh(["git", "-C", "/repo", "worktree", "remove", "--force", wt])
        shutil.rmtree(wt, ignore_errors=True)
        rc, out = sh(["git", "-C", "/repo", "worktree", "add", "--detach", wt, "HEAD"])
        if rc != 0:
            res["error"] = "worktree: " + out[-300:]
            return res
        path = os.path.join(wt, mut["file"])
        src = open(path).read()
        if mut["old"] not in src:
            res["error"] = "pattern not found in " + mut["file"]
            return res
        open(path, "w").write(src.replace(mut["old"], mut["new"], 1))
        rc, diff = sh(["git", "-C", wt, "diff"])
        os.makedirs(os.path.join(VERIF, "mutants"), exist_ok=True)
        open(os.path.join(VERIF, "mutants", name + ".patch"), "w").write(diff)
        env = dict(os.environ, CARGO_NET_OFFLINE="true", CARGO_TARGET_DIR=os.path.join(wt, "target"))
        if not skip_suite:
            try:
                rc, out = sh(["cargo", "test", "--offline", "--workspace", "--no-fail-fast"], cwd=wt, env=env, timeout=240)
            except subprocess.TimeoutExpired:
                rc, out = 124, "test suite hung (timeout 240 s)"
                sh(["pkill", "-f", os.path.join(wt, "target")])
            res["suite_passes"] = rc == 0
            if rc != 0:
                res["suite_tail"] = out[-600:]
            shutil.rmtree(os.path.join(wt, "target"), ignore_errors=True)
        res["checks"] = {}
        env2 = dict(os.environ, HSV_KEEP_SCRATCH="")
        env2.pop("HSV_KEEP_SCRATCH")
        for prop in mut["props"]:
            for seed in seeds:
                rc, out = sh([os.path.join(VERIF, "check"), prop, "--tier", mut["tier"], "--seed", str(seed), "--repo", wt, "--legs", "native"], cwd=VERIF, env=env2)
                sigs = [l.strip() for l in out.splitlines() if l.strip().startswith("[")]
                res["checks"]["%s@%d" % (prop, seed)] = {"rc": rc, "caught": rc == 1, "signatures": [s[:160] for s in sigs[:4]], "tail": out[-300:] if rc not in (0, 1) else ""}
    except Exception as e:  # noqa: BLE001
        res["error"] = repr(e)
    finally:
        sh(["git", "-C", "/repo", "worktree", "remove", "--force", wt])
        shutil.rmtree(wt, ignore_errors=True)
    res["wall_s"] = round(time.time() - t0, 1)
    return res


def main():
    args = sys.argv[1:]
    j = 4
    only = None
    skip_suite = "--skip-suite" in args
    seeds = [0]
    if "-j" in args:
        j = int(args[args.index("-j") + 1])
    if "--only" in args:
        only = set(args[args.index("--only") + 1].split(","))
    if "--seeds" in args:
        seeds = [int(x) for x in args[args.index("--seeds") + 1].split(",")]
    muts = [m for m in M if only is None or m["name"] in only]
    os.makedirs(ROOT, exist_ok=True)
    out_path = os.path.join(VERIF, "selftest.json")
    prev = {}
    if os.path.exists(out_path):
        prev = {r["name"]: r for r in json.load(open(out_path)).get("results", [])}
    results = []
    with cf.ThreadPoolExecutor(max_workers=j) as ex:
        for r in ex.map(lambda m: one(m, skip_suite, seeds), muts):
            results.append(r)
            primary = r["props"][0]
            caught = {k: v["caught"] for k, v in r.get("checks", {}).items()}
            status = "ERROR " + r["error"] if "error" in r else ("suite FAILS (not realistic) " if r.get("suite_passes") is False else "") + ("caught" if caught.get("%s@%d" % (primary, seeds[0])) else "MISSED")
            print("%-48s %-8s %s  %s  %.0fs" % (r["name"], primary, status, caught, r.get("wall_s", 0)), flush=True)
    for r in results:
        if skip_suite and r["name"] in prev and "suite_passes" in prev[r["name"]]:
            r["suite_passes"] = prev[r["name"]]["suite_passes"]
        prev[r["name"]] = r
    repo_head = sh(["git", "-C", "/repo", "rev-parse", "--short", "HEAD"])[1].strip()
    json.dump({"repo_head": repo_head, "results": [prev[k] for k in sorted(prev)]}, open(out_path, "w"), indent=1)
    shutil.rmtree(ROOT, ignore_errors=True)
    missed = [r["name"] for r in results if "error" in r or not all(v["caught"] for k, v in r.get("checks", {}).items() if k.startswith(r["props"][0]))]
    print("%d mutants, %d not caught by their primary check: %s" % (len(results), len(missed), missed))


if __name__ == "__main__":
    main()
