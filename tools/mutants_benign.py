"""Behaviour-preserving (with respect to the 20 properties) edits: no check may raise an alarm
on any of them. Same entry format as tools/mutants.py; 'edits' is a list of (file, old, new)."""

B = []


def b(name, edits, note=""):
    B.append({"name": name, "edits": edits, "note": note})


b("boundary_string_longer", [
    ("src/serving.rs", '"\\r\\n--B\\r\\nContent-Range: bytes -/\\r\\n".len()', '"\\r\\n--hs_boundary_7f3a\\r\\nContent-Range: bytes -/\\r\\n".len()'),
    ("src/serving.rs", '"\\r\\n--B\\r\\nContent-Range: bytes {}-{}/{}\\r\\n",', '"\\r\\n--hs_boundary_7f3a\\r\\nContent-Range: bytes {}-{}/{}\\r\\n",'),
    ("src/serving.rs", 'HeaderValue::from_static("multipart/byteranges; boundary=B"),', 'HeaderValue::from_static("multipart/byteranges; boundary=hs_boundary_7f3a"),'),
    ("src/serving.rs", 'const PART_TRAILER: &[u8] = b"\\r\\n--B--\\r\\n";', 'const PART_TRAILER: &[u8] = b"\\r\\n--hs_boundary_7f3a--\\r\\n";'),
], "another multipart boundary (the suite's literal comparison fails; the properties do not care)")
b("allow_header_uppercase_and_other_texts", [
    ("src/serving.rs", 'HeaderValue::from_static("get, head")', 'HeaderValue::from_static("GET, HEAD")'),
    ("src/serving.rs", 'Body::from("This resource only supports GET and HEAD.")', 'Body::from("method not allowed")'),
    ("src/serving.rs", 'Body::from("Precondition failed")', 'Body::from("precondition failed: the resource has changed")'),
])
b("read_size_32k", [("src/file.rs", "static CHUNK_SIZE: u64 = 65_536;", "static CHUNK_SIZE: u64 = 32_768;")])
b("read_size_1m", [("src/file.rs", "static CHUNK_SIZE: u64 = 65_536;", "static CHUNK_SIZE: u64 = 1_048_576;")])
b("etag_other_format", [
    ("src/file.rs", '            "\\"{:x}:{:x}:{:x}:{:x}\\"",', '            "\\"{:x}-{:x}-{:x}-{:x}\\"",'),
])
b("wake_before_unlock", [
    ("src/chunker.rs", "        drop(l);\n        if let Some(w) = waker {\n            w.wake();\n        }\n        Ok(())", "        if let Some(w) = waker {\n            w.wake();\n        }\n        drop(l);\n        Ok(())"),
], "flush wakes the consumer while still holding the lock")
b("write_accepts_at_most_half_chunk", [
    ("src/chunker.rs", "        let bytes = if full { remaining } else { buf.len() };", "        let bytes = if full { remaining } else { buf.len() };\n        let bytes = if bytes > 1 && bytes > self.cap / 2 && self.cap >= 4 { bytes / 2 } else { bytes };\n        let full = bytes == remaining;"),
], "partial writes more often (still at least one byte, chunk flushed when full)")
b("gzip_three_flushes", [
    ("src/gzip.rs", "Inner::Gzipped(ref mut w) => w.flush().and_then(|()| w.flush()),", "Inner::Gzipped(ref mut w) => w.flush().and_then(|()| w.flush()).and_then(|()| w.flush()),"),
])
b("date_header_always", [
    ("src/serving.rs", "    if let Some(e) = etag {\n        res = res.header(http::header::ETAG, e);\n    }\n", "    if last_modified.is_none() {\n        res = res.header(header::DATE, fmt_http_date(SystemTime::now()));\n    }\n    if let Some(e) = etag {\n        res = res.header(http::header::ETAG, e);\n    }\n"),
])
b("range_ows_before_comma_tolerated", [
    ("src/range.rs", "        let r = r.trim_start_matches([' ', '\\t']);", "        let r = r.trim_matches([' ', '\\t']);"),
], "recipient leniency the property does not judge")
b("should_gzip_case_insensitive", [
    ("src/lib.rs", '        if coding == "gzip" {', '        if coding.eq_ignore_ascii_case("gzip") {'),
    ("src/lib.rs", '        } else if coding == "identity" {', '        } else if coding.eq_ignore_ascii_case("identity") {'),
])
b("dir_error_kinds_rebuilt", [
    ("src/dir.rs", "        .unwrap_or_else(|e: tokio::task::JoinError| Err(Error::new(ErrorKind::Other, e)))",
     "        .unwrap_or_else(|e: tokio::task::JoinError| Err(Error::new(ErrorKind::Other, e)))\n        .map_err(|e| Error::new(e.kind(), e.to_string()))"),
], "errors returned by get() keep their kind but lose the raw errno (rebuilt at the API boundary, so that the crate's own errno tests - ENOENT, ENAMETOOLONG - are not affected)")
b("reader_takes_all_ready_chunks", [
    ("src/chunker.rs", "                if let Some(c) = ready.pop_front() {\n                    ready_bytes -= c.len();", "                if let Some(mut c) = ready.pop_front() {\n                    while let Some(next) = ready.pop_front() {\n                        c.extend_from_slice(&next);\n                    }\n                    ready_bytes = 0;"),
], "consumer coalesces everything queued into one frame")
b("if_range_equal_date_honoured", [
    ("src/serving.rs", "                // The resource could have changed twice in the supplied second, so never match.\n                range_hdr = None;\n                true",
     "                // honour an HTTP-date exactly equal to Last-Modified\n                let same = match (last_modified, std::str::from_utf8(if_range).ok().and_then(|s| parse_http_date(s).ok())) {\n                    (Some(m), Some(d)) => m.duration_since(SystemTime::UNIX_EPOCH).map(|x| x.as_secs()).ok() == d.duration_since(SystemTime::UNIX_EPOCH).map(|x| x.as_secs()).ok(),\n                    _ => false,\n                };\n                if !same {\n                    range_hdr = None;\n                }\n                !same"),
], "the statement allows honouring an If-Range date exactly equal to Last-Modified")
