#!/usr/bin/env python3
"""Delta-debugging of an op-sequence replay: ./tools/shrink.py <PROP> <replay.json> [signature-prefix]
Removes ops while the same violation signature persists; prints the minimal case."""
import json, subprocess, sys, os, tempfile
prop, path = sys.argv[1], sys.argv[2]
want = sys.argv[3] if len(sys.argv) > 3 else None
HSV = os.environ.get('HSV', '/verif/harness/target/verif/hsv')
case = json.load(open(path))
if 'case' in case and 'signature' in case: case = case['case']
inner = case['case'] if 'case' in case else case
def sigs(c):
    with tempfile.NamedTemporaryFile('w', suffix='.json', delete=False) as f:
        json.dump(c, f); fn = f.name
    out = fn + '.out'
    subprocess.run([HSV, prop, '--replay', fn, '--out', out], check=False, capture_output=True)
    try:
        r = json.load(open(out)); s = [v['signature'] for v in r['violations']]
    except Exception:
        s = []
    for x in (fn, out):
        if os.path.exists(x): os.remove(x)
    return s
base = sigs(inner)
print('initial signatures', base)
if not base: sys.exit(1)
target = want or base[0]
ops = inner['ops']; n = 2
def fails(o):
    c = dict(inner); c['ops'] = o
    return any(s.startswith(target) for s in sigs(c))
while len(ops) >= 2:
    chunk = max(1, len(ops) // n); reduced = False
    for i in range(0, len(ops), chunk):
        cand = ops[:i] + ops[i + chunk:]
        if cand and fails(cand):
            ops = cand; n = max(n - 1, 2); reduced = True; break
    if not reduced:
        if chunk == 1: break
        n = min(n * 2, len(ops))
inner['ops'] = ops
print(json.dumps(inner))
