#!/opt/veriftools/pyvenv/bin/python
"""Validates MANIFEST.json and every evidence file against the schemas."""
import json, sys, glob, jsonschema
ok = True
ms = json.load(open('/root/.vp/MANIFEST.schema.json'))
es = json.load(open('/root/.vp/EVIDENCE.schema.json'))
try:
    jsonschema.validate(json.load(open('/verif/MANIFEST.json')), ms); print('MANIFEST ok')
except Exception as e:
    ok = False; print('MANIFEST INVALID', str(e)[:300])
for f in sorted(glob.glob('/verif/evidence/*.json')):
    try:
        e = json.load(open(f)); jsonschema.validate(e, es)
        print(f, 'ok', e['tier'], e['coverage']['evaluations'], e['coverage']['distinct_nontrivial'], 'viol', e.get('violations'))
    except Exception as ex:
        ok = False; print(f, 'INVALID', str(ex)[:300])
sys.exit(0 if ok else 1)
