#!/usr/bin/env python3
"""Writes /verif/MANIFEST.json from the table below (single source of truth for the checks)."""
import json
import os
import subprocess

VERIF = os.path.dirname(os.path.dirname(os.path.abspath(__file__)))

# id: (engine, level category, technique, level text, level note, design ref)
CHECKS = {
    "C01": ("E1-serve", "exploration", "runtime monitor: body monitor comparing Content-Length / exact size hint / delivered bytes over generated requests x lengths x chunk plans; plain-release leg (also quick), Miri, libFuzzer+ASan with the same oracle",
            "Held on every execution produced: the body monitor drains each response of the generated request x entity-length x chunking product and compares the announced length (Content-Length, exact size hint) with the bytes delivered. Sampled exploration of an infinite space, boundary values enumerated.",
            "Trusts the harness entity to honour the Entity contract, the http/http-body crates, and the drain cap (giant bodies judged on a prefix).", "5/C01"),
    "C02": ("E1-serve", "exploration", "runtime monitor: position-hash (and delimiter-like) entity content compared byte for byte with what status + Content-Range (also of each multipart part) denote; plain-release, Miri, libFuzzer+ASan legs",
            "Every 200/206 body explored is compared byte for byte with the entity bytes its own headers denote, over all single-range forms at boundary positions (all positions for L <= 12), all chunk plans and lengths up to 2^64-1.",
            "Content byte i is a position hash; bodies above the drain cap are compared on their prefix.", "5/C02"),
    "C03": ("E1-serve", "exploration", "runtime monitor: independent RFC 7233 resolver model as oracle over exhaustive small-length range sets, boundary numbers and a header-rich multipart threshold sweep; plain-release, Miri, libFuzzer+ASan legs",
            "Responses are compared with an independent RFC 7233 resolver (u128 arithmetic) on all sets of up to 3 specs for lengths 1..8 (2 specs, lengths 1..5 in quick), boundary numbers up to 10^30, a sweep across the multipart thresholds and near-miss syntax.",
            "Oracle is permissive exactly where the statement is (lenient list forms, inverted specs, numbers above 2^64-1, 413 only when the multipart length cannot fit).", "5/C03"),
    "C04": ("E1-serve", "exploration", "runtime monitor: independent RFC 7232 precondition model over the full categorical product of validators",
            "The full categorical product of ETag x mtime x If-Match x If-None-Match x If-Modified-Since x If-Unmodified-Since x GET/HEAD is executed and each status compared with an independent RFC 7232 evaluator.",
            "Request dates are read back with the httpdate crate; malformed / lenient lists are not judged.", "5/C04"),
    "C05": ("E1-serve", "exploration", "runtime monitor: If-Range gate oracle over near-miss validators x range shapes",
            "Complete product of near-miss If-Range validators x entity ETag kinds x range shapes x GET/HEAD; a 206/416 or Content-Range without a byte-identical strong validator is a violation, and a missing 206 with one is too.",
            "Date-equal-to-Last-Modified may go either way, as the statement allows.", "5/C05"),
    "C06": ("E1-serve", "exploration", "runtime monitor: length-driven multipart/byteranges reader as oracle over widths 1..20 digits, header sets, part counts",
            "Every multipart 206 produced is parsed by an independent length-driven reader and compared part by part (order, Content-Range, headers, bytes) and against Content-Length, across all decimal widths up to 2^64-1, five entity-header sets, 2..8 parts and all chunk plans.",
            "Header line order inside a part is not judged; giant bodies are parsed as a prefix and their Content-Length compared with the total implied by the observed format.", "5/C06"),
    "C07": ("E1-serve", "fault_enumeration", "fault injection at the Entity boundary, exhaustive over chunkings <= 4 chunks x fault kind x byte offset x response shape, judged by the body monitor",
            "Exhaustive enumeration of entity streams of up to 4 chunks (lengths 0..3) x {early end, Err, extra byte, extra chunk} at every offset x {200, single 206, each part of 2- and 3-part multipart} x Pending; the body must end in an error (never cleanly) and never pass on more than announced.",
            "Entity streams are fused, as the statement assumes; the fault-free run of the same request is the reference for the prefix check.", "5/C07"),
    "C13": ("E1-serve", "exploration", "runtime monitor with panic capture over seeded hostile requests (grammar mutations, boundary numbers, arbitrary bytes, repeated headers); libFuzzer+ASan and Miri legs",
            "Seeded random and mutated requests (all six headers, repeated lines, non-ASCII, numbers beyond 64 bits, 14 methods) against entities from empty to 2^64-1 bytes; any panic in serve or while draining, a status outside the allowed set, or a non-GET/HEAD method not answered 405+Allow without touching the entity is a violation.",
            "Inputs are those the http crate's HeaderValue/Method types can represent.", "5/C13"),
    "C14": ("E1-serve", "exploration", "runtime monitor over two-request histories: served validators echoed back in every subset",
            "All two-request histories of the stated product are executed; the first response's Accept-Ranges/ETag/Date/Last-Modified/entity headers are checked and every subset of served validators is echoed in a second request whose status is compared with the round-trip rule.",
            "Last-Modified is judged against the response's own Date (no clock in the oracle); date echoes of future-dated entities are not judged.", "5/C14"),
    "C15": ("E1-serve", "exploration", "runtime monitor: paired GET/HEAD execution comparing status, header multisets, body emptiness and entity reads",
            "Every request of the C01/C06/C13 workloads is sent as GET and as HEAD; status, headers (minus Date/Last-Modified), empty HEAD body and zero get_range calls are compared.",
            "streaming_body's HEAD behaviour is judged in the C17 workload.", "5/C15"),
}


CHECKS.update({
    "C08": ("E2-stream", "exploration", "runtime monitor: recorded write/flush/poll history checked against a sequential model with position-unique payload; Miri + ASan legs",
            "All op sequences up to length 4 (5 in thorough) over write/write_all/flush/poll for chunk sizes 1,2,3,4,7 plus long random sequences up to 64 KiB chunks and block-filled chunks of 100000 bytes .. 1 MiB are executed; frames, partial-write counts, flush availability and the clean end are compared with a sequential model.",
            "Single-threaded histories; interleavings are C10's subject.", "5/C08"),
    "C09": ("E2-stream", "exploration", "runtime monitor: independent gzip member reader (own header/trailer/CRC-32, raw inflate) over recorded histories, streaming inflate after every flush; Python zlib re-check in thorough",
            "Every history's delivered stream must parse as exactly one gzip member equal to the bytes written, and after every flush a streaming inflater over the frames so far must reproduce everything written before it; levels 1..9, chunk sizes 1..64 KiB, incompressible / zero / text payloads up to 200 KiB per write.",
            "Inflate is flate2's raw Decompress (different code path from the encoder); thorough tier re-checks recorded streams with Python's zlib.", "5/C09"),
    "C10": ("E3-sched + E2-stream", "exploration", "runtime monitor over schedules: real chunker on two threads under a token-passing delay injector at the instrumented-mutex hooks (stateless DFS over delay decisions), lost-wake-up diagnosis at operation return, free-running stress, deep-backlog programs; sequential park-then-ready waker oracle over the E2 history space; TSan + Miri legs",
            "All schedules (at lock-acquisition / unlock->wake / Pending granularity, <= 2 spurious polls, 3 waker policies) of all producer programs of <= 2 operations (<= 3 in thorough) are executed against the real code; longer programs are capped, preemption-bounded, random or free-running. A parked, un-woken consumer for which a poll would return Ready, a deadlock, a Pending after the writer is gone, or a clean end before everything was delivered is a violation.",
            "Critical sections are atomic for the scheduler (they are under the code's own lock); only the most recent poll's waker counts as live.", "5/C10"),
    "C11": ("E2-stream + E3-sched", "fault_enumeration", "fault injection (abort / body drop at every position of every short op sequence; abort programs under the scheduler; counting-allocator heap monitor)",
            "Abort or body drop is inserted at every position of every op sequence up to length 3 (4 in thorough), raw and gzip; abort programs run under all schedules (capped); a counting allocator checks that >= 1 MiB of queued chunks is released once the body is dropped and that a writer without a consumer does not grow.",
            "'Chunk-completing' is modelled from the configured chunk size; flush with nothing pending on a raw writer is not judged.", "5/C11"),
    "C12": ("E1 + E2 + E3", "exploration", "runtime monitor: size_hint()/is_end_stream() sampled before every poll in all engines, and in a tight loop on one thread while another thread ends the writer (free-running hint-spin trials), judged against the total known at the clean end",
            "About 40 million hint samples per quick run across serve bodies (Once / ExactLen / multipart), streaming bodies (raw, gzip, abort), scheduler runs and all Body::from conversions; lower <= remaining <= upper, exactness where promised, nothing after is_end_stream() = true.",
            "Range of the hint judged only for bodies that end cleanly, as the statement conditions.", "5/C12"),
    "C16": ("E4-negot", "exploration", "runtime oracle: independent RFC 7231 5.3.4 evaluator over the exhaustive list space; libFuzzer+ASan and Miri legs",
            "All lists of up to 3 elements (4 in thorough: 77 million evaluations) over 6 codings x 11 weights x 4 whitespace layouts are compared with an independent evaluator, three quarters of them with request headers of neighbouring concerns (Range, If-Range, validators, TE, ...) in the same map; random and mutated byte strings for the no-panic clause.",
            "Lists whose repeated codings make first/last/max/min-wins disagree are not judged.", "5/C16"),
    "C17": ("E2-stream", "exploration", "runtime monitor: header decision vs should_gzip && level>0, body coding verified by the gzip member reader, Request vs Parts vs HEAD compared",
            "Complete product of 300 Accept-Encoding values x gzip level default/0..9 x 3 chunk sizes, each built for GET, POST, HEAD as Request and as Parts; Vary, Content-Encoding, writer presence and the actual body coding are checked.",
            "The negotiation decision is taken from the real should_gzip, as the statement says; C16 judges that function.", "5/C17"),
    "C18": ("E5-file", "fault_enumeration", "fault injection on real files (truncation at every interesting length before poll 0/1/2, short reads via the read-cap hook), byte oracle, ETag history oracle; memcheck (quick too), Miri, ASan legs",
            "Real temporary files of 7 sizes around the 64 KiB read size; all boundary range pairs x read caps; truncation points x poll index; the same through serve(); ETag stability / change histories; non-regular files.",
            "File system supports nanosecond mtimes; bounded polls = range length + 8.", "5/C18"),
    "C19": ("E6-dir", "exploration", "runtime oracle: in-memory POSIX path resolver (self-checked against the kernel) over the exhaustive hostile path space on a real tree; descriptor-count monitor; memcheck + ASan legs",
            "Every path of up to 3 segments (4 in thorough) over the hostile segment alphabet, NUL at every position of 300 paths, x 6 Accept-Encoding values x auto_gzip on/off (three quarters of the cases with other request headers - Range, If-Range, validators - riding along), on a real tree with a secret file outside the base; the returned node's (dev, inode), errno class, encoding() and headers are compared with the resolver's prediction.",
            "Symlinks, permissions and over-long names are outside the quantifier.", "5/C19"),
    "C20": ("E1 + E2 + E3", "fault_enumeration", "fault enumeration: every body polled 2-4 more times after each kind of terminal event, at every fault position",
            "All C07 fault cases (every chunking x fault x offset x shape incl. every multipart part), the honest C01/C06 workloads, the C08/C09/C11 sequences and abort schedules are polled on after their first terminal event; a panic or data frame is a violation.",
            "Harness entity streams are fused, as the statement requires.", "5/C20"),
})

NOT_YET = {}


def main():
    all_ids = [json.loads(l)["id"] for l in open(os.path.join(VERIF, "properties.jsonl"))]
    hooks_commits = subprocess.run(["git", "-C", "/repo", "log", "--format=%H", "--grep=verif-hooks"], capture_output=True, text=True).stdout.split()
    checks = []
    for pid in all_ids:
        if pid not in CHECKS:
            continue
        eng, cat, tech, text, note, ref = CHECKS[pid]
        checks.append({
            "property_id": pid,
            "quick_cmd": "./check %s --tier quick" % pid,
            "thorough_cmd": "./check %s --tier thorough" % pid,
            "evidence_file": "evidence/%s.json" % pid,
            "replay_cmd_template": "./check %s --replay {path}" % pid,
            "engine": eng,
            "level_claimed": {"category": cat, "text": text, "design_ref": "DESIGN.md section " + ref},
            "level_note": note,
            "technique": tech,
        })
    na = [{"property_id": p, "reason": NOT_YET.get(p, "check under construction in this session; not claimed until its monitor is built and validated")} for p in all_ids if p not in CHECKS]
    m = {
        "version": 1,
        "setup_cmd": "cd /verif/harness && CARGO_NET_OFFLINE=true cargo build --offline --profile verif && CARGO_NET_OFFLINE=true cargo build --offline --release",
        "hooks": {
            "guard": "verif-hooks",
            "enable": "cargo feature `verif-hooks` of http-serve, switched on by the harness's path dependency (harness/Cargo.toml: features = [\"verif-hooks\", \"dir\"])",
            "baseline_off_cmd": "cd /repo && cargo test --workspace --no-fail-fast --offline",
            "source_commits": hooks_commits,
            "add_only": True,
        },
        "engines": [
            {"name": "E1-serve", "path": "harness/src/e1.rs", "serves_properties": ["C01", "C02", "C03", "C04", "C05", "C06", "C07", "C12", "C13", "C14", "C15", "C20"], "kind_free_text": "drives http_serve::serve with a monitored harness entity; body monitor"},
            {"name": "E2-stream", "path": "harness/src/e2.rs", "serves_properties": ["C08", "C09", "C10", "C11", "C12", "C17", "C20"], "kind_free_text": "streaming_body op sequences against a sequential model"},
            {"name": "E3-sched", "path": "harness/src/e3.rs", "serves_properties": ["C10", "C11", "C12", "C20"], "kind_free_text": "producer/consumer threads under a hook-driven deterministic scheduler and free-running stress"},
            {"name": "E4-negot", "path": "harness/src/p_negot.rs", "serves_properties": ["C16"], "kind_free_text": "should_gzip against an RFC 7231 model"},
            {"name": "E5-file", "path": "harness/src/p_file.rs", "serves_properties": ["C18"], "kind_free_text": "ChunkedReadFile on real temporary files, truncation and short-read injection"},
            {"name": "E6-dir", "path": "harness/src/p_dir.rs", "serves_properties": ["C19"], "kind_free_text": "FsDir::get on a purpose-built tree against a POSIX path resolver"},
        ],
        "checks": checks,
        "notes": "All checks are runtime monitors over executions of the real code (see DESIGN.md). Exit 0 = held on everything explored, 1 = VIOLATION line(s), 2 = inconclusive (never a VIOLATION line). known_findings.json lists known and fixed findings.",
        "not_applicable": na,
    }
    json.dump(m, open(os.path.join(VERIF, "MANIFEST.json"), "w"), indent=1)
    print("wrote MANIFEST.json with %d checks, %d not claimed" % (len(checks), len(na)))


if __name__ == "__main__":
    main()
