#!/bin/bash
# Runs every registered quick check at the given seeds (default 0) and prints everything that is not OK.
cd /verif
bad=0
for seed in ${@:-0}; do
  for p in $(python3 -c "import json;print(' '.join(c['property_id'] for c in json.load(open('MANIFEST.json'))['checks']))"); do
    out=$(VERIF_SEED=$seed ./check $p --tier quick 2>&1); rc=$?
    if [ $rc -ne 0 ]; then bad=1; echo "seed $seed $p rc=$rc"; echo "$out" | tail -4 | cut -c1-400; fi
  done
done
[ $bad -eq 0 ] && echo "all quick checks OK at seeds: ${@:-0}"
exit $bad
