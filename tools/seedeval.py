#!/usr/bin/env python3
"""Evaluates an independently written breaking change (sub-agent output in /tmp/seed-<id>):

  tools/seedeval.py <dir> <property> [--name NAME] [--also C01,C02] [--thorough]

1. extracts the source patch and the demonstration from the scratch worktree;
2. confirms in a fresh worktree that the demonstration passes without the patch, fails with it,
   and that the repository's own suite still passes with it;
3. runs ./check for the property (quick, then thorough if quick misses) against the patched tree;
4. stores patch.diff, the demonstration and meta.json under /verif/seeded/<name>/.
"""
import json
import os
import shutil
import subprocess
import sys
import time

VERIF = os.path.dirname(os.path.dirname(os.path.abspath(__file__)))


def sh(cmd, cwd=None, env=None, timeout=3600):
    try:
        p = subprocess.run(cmd, cwd=cwd, env=env, stdout=subprocess.PIPE, stderr=subprocess.STDOUT, text=True, timeout=timeout)
        return p.returncode, p.stdout
    except subprocess.TimeoutExpired as e:
        return 124, (e.stdout or b"").decode("utf8", "replace") if isinstance(e.stdout, bytes) else (e.stdout or "") + "\n[timeout]"


def main():
    src, prop = sys.argv[1], sys.argv[2]
    args = sys.argv[3:]
    name = args[args.index("--name") + 1] if "--name" in args else os.path.basename(src.rstrip("/")).replace("seed-", "")
    also = args[args.index("--also") + 1].split(",") if "--also" in args else []
    out = os.path.join(VERIF, "seeded", name)
    os.makedirs(out, exist_ok=True)
    rc, patch = sh(["git", "-C", src, "diff", "--", "src", "Cargo.toml"])
    if not patch.strip():
        sys.exit("no source change in " + src)
    open(os.path.join(out, "patch.diff"), "w").write(patch)
    rc, others = sh(["git", "-C", src, "ls-files", "--others", "--exclude-standard"])
    demos = [f for f in others.split() if (f.startswith("tests/") or f.startswith("examples/")) and f.endswith(".rs")]
    for f in demos:
        shutil.copy(os.path.join(src, f), os.path.join(out, os.path.basename(f)))
    if os.path.exists(os.path.join(src, "SEEDED.md")):
        shutil.copy(os.path.join(src, "SEEDED.md"), os.path.join(out, "SEEDED.md"))
    meta = {"name": name, "breaks_property": prop, "demonstrations": demos, "source": "written by an independent sub-agent given only the property text",
            "repo_head": sh(["git", "-C", "/repo", "rev-parse", "--short", "HEAD"])[1].strip(), "ran": []}
    # --- confirm in a fresh worktree
    wt = "/tmp/seedchk-" + name
    sh(["git", "-C", "/repo", "worktree", "remove", "--force", wt])
    shutil.rmtree(wt, ignore_errors=True)
    sh(["git", "-C", "/repo", "worktree", "add", "--detach", wt, "HEAD"])
    env = dict(os.environ, CARGO_NET_OFFLINE="true")
    try:
        for f in demos:
            os.makedirs(os.path.dirname(os.path.join(wt, f)), exist_ok=True)
            shutil.copy(os.path.join(src, f), os.path.join(wt, f))
        demo_targets = []
        for f in demos:
            base = os.path.splitext(os.path.basename(f))[0]
            demo_targets.append(("--test", base) if f.startswith("tests/") else ("--example", base))
        feat = ["--features", "dir"] if "dir.rs" in patch or any("dir" in open(os.path.join(src, f)).read() for f in demos) else []

        def run_demo():
            res = []
            for kind, base in demo_targets:
                if kind == "--test":
                    rc, o = sh(["cargo", "test", "--offline", "--test", base] + feat, cwd=wt, env=env, timeout=900)
                else:
                    rc, o = sh(["cargo", "run", "--offline", "--example", base] + feat, cwd=wt, env=env, timeout=900)
                res.append((base, rc, o[-400:]))
            return res
        before = run_demo()
        meta["ran"].append({"what": "demonstration on the unchanged tree", "results": [{"target": b, "rc": rc} for b, rc, _ in before]})
        rc, o = sh(["git", "-C", wt, "apply", os.path.join(out, "patch.diff")])
        if rc != 0:
            meta["error"] = "patch does not apply: " + o[-300:]
            raise SystemExit(1)
        after = run_demo()
        meta["ran"].append({"what": "demonstration with the change", "results": [{"target": b, "rc": rc, "tail": t} for b, rc, t in after]})
        # the repository's own suite (demo files moved away)
        for f in demos:
            os.remove(os.path.join(wt, f))
        rc, o = sh(["cargo", "test", "--offline", "--workspace", "--no-fail-fast"], cwd=wt, env=env, timeout=900)
        meta["ran"].append({"what": "repository test suite with the change (cargo test --offline --workspace)", "rc": rc, "tail": o[-300:] if rc else ""})
        rc2, o2 = sh(["cargo", "test", "--offline", "--features", "dir", "--no-fail-fast"], cwd=wt, env=env, timeout=900)
        meta["ran"].append({"what": "same with --features dir", "rc": rc2, "tail": o2[-300:] if rc2 else ""})
        meta["demo_passes_without_change"] = all(rc == 0 for _, rc, _ in before) and bool(before)
        meta["demo_fails_with_change"] = any(rc != 0 for _, rc, _ in after)
        meta["suite_passes_with_change"] = rc == 0 and rc2 == 0
        shutil.rmtree(os.path.join(wt, "target"), ignore_errors=True)
        # --- the checks
        env2 = dict(os.environ, HSV_SCRATCH_DIR="/tmp/hsv-scratch-seed-" + name)
        meta["checks"] = {}
        for pid in [prop] + also:
            for tier in (["quick"] if "--quick-only" in args else ["quick", "thorough"] if "--thorough" in args or pid == prop else ["quick"]):
                t0 = time.time()
                rc, o = sh([os.path.join(VERIF, "check"), pid, "--tier", tier, "--repo", wt], cwd=VERIF, env=env2, timeout=7200)
                sigs = [l.strip()[:200] for l in o.splitlines() if l.strip().startswith("[")]
                meta["checks"]["%s/%s" % (pid, tier)] = {"rc": rc, "caught": rc == 1, "signatures": sigs[:5], "wall_s": round(time.time() - t0, 1), "tail": o[-400:] if rc not in (0, 1) else ""}
                print("%s %s/%s rc=%d %s" % (name, pid, tier, rc, sigs[:2]), flush=True)
                if rc == 1:
                    break
    finally:
        sh(["git", "-C", "/repo", "worktree", "remove", "--force", wt])
        shutil.rmtree(wt, ignore_errors=True)
        shutil.rmtree("/tmp/hsv-scratch-seed-" + name, ignore_errors=True)
        json.dump(meta, open(os.path.join(out, "meta.json"), "w"), indent=1)
    print(json.dumps({k: meta.get(k) for k in ("demo_passes_without_change", "demo_fails_with_change", "suite_passes_with_change")}))


if __name__ == "__main__":
    main()
