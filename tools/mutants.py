"""Realistic property-breaking edits used to validate the monitors (DESIGN section 6).
Each entry: name, properties expected to catch it (primary first), file, old text, new text,
optional note / tier ('quick' unless the change needs the thorough tier)."""

M = []


def m(name, props, file, old, new, tier="quick", note=""):
    M.append({"name": name, "props": props, "file": file, "old": old, "new": new, "tier": tier, "note": note})


# ---------------------------------------------------------------- serving.rs / range.rs / body.rs
m("multipart_len_without_trailer", ["C06", "C01"], "src/serving.rs",
  "    body_len = body_len\n        .checked_add(crate::as_u64(PART_TRAILER.len()))\n        .ok_or(MultipartLenOverflowError)?;\n", "")
m("multipart_remaining_skips_part_headers", ["C12"], "src/serving.rs",
  "                this.state += 1;\n                this.remaining -= crate::as_u64(v.len());\n", "                this.state += 1;\n")
m("content_range_prints_exclusive_end", ["C02", "C03"], "src/serving.rs",
  "                        range.start,\n                        range.end - 1,\n                        len\n", "                        range.start,\n                        range.end,\n                        len\n")
m("suffix_range_from_start", ["C03"], "src/range.rs",
  "            ranges.push((len - last)..len);", "            ranges.push(0..last);")
m("empty_range_accepted", ["C03"], "src/range.rs",
  "            if first >= end {", "            if first > end {")
m("stop_at_first_unsatisfiable", ["C03"], "src/range.rs",
  "            if first >= end {\n                continue; // this range is not satisfiable; skip.", "            if first >= end {\n                break; // this range is not satisfiable; skip.")
m("multipart_threshold_quarter", ["C03"], "src/serving.rs",
  "if matches!(est_len, Some(l) if l < len) {", "if matches!(est_len, Some(l) if l < len / 4) {")
m("if_match_weak_compare", ["C04"], "src/etag.rs",
  "if !any_match && strong_eq(item, some_etag.as_bytes()) {", "if !any_match && weak_eq(item, some_etag.as_bytes()) {")
m("if_none_match_strong_compare", ["C04"], "src/etag.rs",
  "if none_match && weak_eq(item, some_etag.as_bytes()) {", "if none_match && strong_eq(item, some_etag.as_bytes()) {")
m("not_modified_before_precondition", ["C04"], "src/serving.rs",
  "    if precondition_failed {\n        res = res.status(StatusCode::PRECONDITION_FAILED);\n        return ServeInner::Simple(res.body(Body::from(\"Precondition failed\")).unwrap());\n    }\n\n    if not_modified {\n        res = res.status(StatusCode::NOT_MODIFIED);\n        return ServeInner::Simple(res.body(Body::empty()).unwrap());\n    }\n",
  "    if not_modified {\n        res = res.status(StatusCode::NOT_MODIFIED);\n        return ServeInner::Simple(res.body(Body::empty()).unwrap());\n    }\n\n    if precondition_failed {\n        res = res.status(StatusCode::PRECONDITION_FAILED);\n        return ServeInner::Simple(res.body(Body::from(\"Precondition failed\")).unwrap());\n    }\n")
m("ims_honoured_despite_if_none_match", ["C04"], "src/etag.rs",
  "    Some(none_match)\n}", "    if none_match {\n        None\n    } else {\n        Some(false)\n    }\n}")
m("ims_strictly_later", ["C04", "C14"], "src/serving.rs",
  "*m <= parse_http_date(", "*m < parse_http_date(")
m("ius_not_ignored_with_if_match", ["C04"], "src/serving.rs",
  "    } else if req_hdrs.contains_key(header::IF_MATCH) {", "    } else if false && req_hdrs.contains_key(header::IF_MATCH) {")
m("if_range_weak_compare", ["C05"], "src/serving.rs",
  "if etag::strong_eq(if_range, some_etag.as_bytes()) {", "if etag::weak_eq(if_range, some_etag.as_bytes()) {")
m("if_range_date_honoured", ["C05"], "src/serving.rs",
  "                // The resource could have changed twice in the supplied second, so never match.\n                range_hdr = None;\n                true",
  "                // The resource could have changed twice in the supplied second, so never match.\n                true")
m("if_range_without_etag_honoured", ["C05"], "src/serving.rs",
  "                } else {\n                    range_hdr = None;\n                    true\n                }\n            } else {\n                // Date case.",
  "                } else {\n                    true\n                }\n            } else {\n                // Date case.")
m("part_blank_line_only_without_headers", ["C06"], "src/serving.rs",
  "        buf.extend_from_slice(&each_part_headers);\n        buf.extend_from_slice(b\"\\r\\n\");", "        buf.extend_from_slice(&each_part_headers);\n        if each_part_headers.is_empty() {\n            buf.extend_from_slice(b\"\\r\\n\");\n        }")
m("multipart_parts_sorted", ["C06", "C03"], "src/serving.rs",
  "                if matches!(est_len, Some(l) if l < len) {\n", "                if matches!(est_len, Some(l) if l < len) {\n                    let mut ranges = ranges;\n                    ranges.sort_by_key(|r| r.start);\n")
m("entity_headers_kept_under_if_range", ["C06", "C14"], "src/serving.rs",
  "                    if etag::strong_eq(if_range, some_etag.as_bytes()) {\n                        false", "                    if etag::strong_eq(if_range, some_etag.as_bytes()) {\n                        true")
m("multipart_len_omits_entity_headers", ["C06", "C01"], "src/serving.rs",
  "            .checked_add(crate::as_u64(buf.len()))", "            .checked_add(crate::as_u64(buf.len() - each_part_headers.len()))")
m("short_stream_tolerated_by_one", ["C07"], "src/body.rs",
  "                if this.remaining != 0 {", "                if this.remaining > 1 {")
m("long_stream_saturates", ["C07"], "src/body.rs",
  "let new_rem = this.remaining.checked_sub(d_len);", "let new_rem = Some(this.remaining.saturating_sub(d_len));")
m("multipart_continues_after_part_error", ["C07"], "src/serving.rs",
  "                    Poll::Ready(Some(Err(e))) => {\n                        // Fuse.\n                        this.cur = None;\n                        this.remaining = 0;\n                        this.state = this.ranges.len() << 1 | 1;\n                        return Poll::Ready(Some(Err(e)));\n                    }",
  "                    Poll::Ready(Some(Err(_e))) => {\n                        this.cur = None;\n                        this.state += 1;\n                        continue;\n                    }",
  note="panics on the crate's own debug_assert in the verif profile, ends cleanly and short in plain release")
m("multipart_fuse_keeps_part", ["C20"], "src/serving.rs",
  "                        // Fuse.\n                        this.cur = None;\n", "                        // Fuse.\n")
m("non_ascii_range_unwrap", ["C13"], "src/range.rs",
  "range.and_then(|v| v.to_str().ok())", "range.map(|v| v.to_str().unwrap())")
m("post_passes_method_gate", ["C13"], "src/serving.rs",
  "    if method != Method::GET && method != Method::HEAD {", "    if method != Method::GET && method != Method::HEAD && method != Method::POST {")
m("estimate_unchecked_add", ["C13"], "src/serving.rs",
  "                    acc.checked_add(80)\n                        .and_then(|a| a.checked_add(r.end - r.start))", "                    Some(acc + 80 + (r.end - r.start))")
m("range_end_plain_add", ["C13", "C03"], "src/range.rs",
  "                    .saturating_add(1), // last-byte-pos may be u64::MAX.", "                    + 1,")
m("last_modified_not_clamped", ["C14"], "src/serving.rs",
  "let clamped_m = std::cmp::min(m, d);", "let clamped_m = m;")
m("entity_headers_before_early_returns", ["C14"], "src/serving.rs",
  "    if precondition_failed {\n        res = res.status(StatusCode::PRECONDITION_FAILED);", "    if let Some(h) = res.headers_mut() {\n        ent.add_headers(h);\n    }\n    if precondition_failed {\n        res = res.status(StatusCode::PRECONDITION_FAILED);")
m("etag_only_on_success", ["C14"], "src/serving.rs",
  "    if let Some(e) = etag {\n        res = res.header(http::header::ETAG, e);\n    }\n\n    if precondition_failed {", "    if let (Some(e), false) = (etag, not_modified) {\n        res = res.header(http::header::ETAG, e);\n    }\n\n    if precondition_failed {")
m("mtime_compared_untruncated", ["C14", "C04"], "src/serving.rs",
  "        Ok(d) => SystemTime::UNIX_EPOCH + std::time::Duration::from_secs(d.as_secs()),", "        Ok(_) => m,")
m("head_opens_entity_stream", ["C15"], "src/serving.rs",
  "        Method::HEAD => Body::empty(),", "        Method::HEAD => {\n            drop(ent.get_range(range.start..range.start));\n            Body::empty()\n        }")
m("head_multipart_returns_early", ["C15"], "src/serving.rs",
  "                    let (res, part_headers, len) =\n                        match prepare_multipart(", "                    if method == Method::HEAD {\n                        return ServeInner::Simple(\n                            res.status(StatusCode::PARTIAL_CONTENT)\n                                .body(Body::empty())\n                                .unwrap(),\n                        );\n                    }\n                    let (res, part_headers, len) =\n                        match prepare_multipart(")

# ---------------------------------------------------------------- lib.rs
m("should_gzip_strictly_greater", ["C16"], "src/lib.rs",
  "    gzip_q > 0 && gzip_q >= identity_q", "    gzip_q > 0 && gzip_q > identity_q")
m("identity_ignores_star", ["C16"], "src/lib.rs",
  "let identity_q = identity_q.or(star_q).unwrap_or(1);", "let identity_q = identity_q.unwrap_or(1);")
m("identity_default_full_quality", ["C16"], "src/lib.rs",
  "let identity_q = identity_q.or(star_q).unwrap_or(1);", "let identity_q = identity_q.or(star_q).unwrap_or(1000);")
m("qvalue_two_digit_factor", ["C16"], "src/lib.rs",
  "        2 /* 0.xx */ => 10,", "        2 /* 0.xx */ => 100,", note="0.99 becomes 9900 > 1000")
m("content_encoding_ignores_level", ["C17"], "src/lib.rs",
  "        if self.should_gzip && self.gzip_level > 0 {\n            resp.headers_mut()", "        if self.should_gzip {\n            resp.headers_mut()")
m("vary_only_when_gzipping", ["C17"], "src/lib.rs",
  "        resp.headers_mut()\n            .append(header::VARY, HeaderValue::from_static(\"accept-encoding\"));\n\n        if self.should_gzip && self.gzip_level > 0 {\n",
  "        if self.should_gzip && self.gzip_level > 0 {\n            resp.headers_mut()\n                .append(header::VARY, HeaderValue::from_static(\"accept-encoding\"));\n")

# ---------------------------------------------------------------- chunker.rs / gzip.rs
m("write_reports_whole_buffer", ["C08"], "src/chunker.rs",
  "        Ok(bytes)\n    }", "        Ok(buf.len())\n    }")
m("flush_publishes_only_full_chunks", ["C08", "C09"], "src/chunker.rs",
  "        if self.buf.is_empty() && !dropping {", "        if self.buf.len() < self.cap && !dropping {")
m("reader_pops_newest_chunk", ["C08"], "src/chunker.rs",
  "if let Some(c) = ready.pop_front() {", "if let Some(c) = ready.pop_back() {")
m("gzip_flush_skips_compressor", ["C09"], "src/gzip.rs",
  "Inner::Gzipped(ref mut w) => w.flush().and_then(|()| w.flush()),", "Inner::Gzipped(ref mut w) => w.get_mut().flush(),")
m("gzip_single_flush", ["C09"], "src/gzip.rs",
  "Inner::Gzipped(ref mut w) => w.flush().and_then(|()| w.flush()),", "Inner::Gzipped(ref mut w) => w.flush(),", note="the repaired pinned-tree defect coming back")
m("flush_wakes_only_when_dropping", ["C10"], "src/chunker.rs",
  "            *writer_dropped = dropping;\n            l.waker.take()", "            *writer_dropped = dropping;\n            if dropping {\n                l.waker.take()\n            } else {\n                None\n            }")
m("abort_does_not_wake", ["C10"], "src/chunker.rs",
  "            waker = l.waker.take();", "            waker = None::<std::task::Waker>;")
m("reader_keeps_stale_waker", ["C10"], "src/chunker.rs",
  "                        Some(w) if !w.will_wake(cx.waker()) => w.clone_from(cx.waker()),\n", "")
m("reader_forgets_state_on_pending", ["C10", "C08"], "src/chunker.rs",
  "                        None => l.waker = Some(cx.waker().clone()),\n                    }\n                    l.state = SharedState::Ok {\n                        ready,\n                        ready_bytes,\n                        writer_dropped,\n                    };\n", "                        None => l.waker = Some(cx.waker().clone()),\n                    }\n                    let _ = (ready, ready_bytes);\n")
m("reader_critical_section_split", ["C10"], "src/chunker.rs",
  "                if !writer_dropped {\n                    match l.waker.as_mut() {", "                if !writer_dropped {\n                    l.state = SharedState::Ok {\n                        ready: VecDeque::new(),\n                        ready_bytes,\n                        writer_dropped,\n                    };\n                    drop(l);\n                    let mut l = shared.lock().expect(\"not poisoned\");\n                    let (ready, ready_bytes, writer_dropped) =\n                        match std::mem::replace(&mut l.state, SharedState::ReaderFused) {\n                            SharedState::Ok {\n                                ready,\n                                ready_bytes,\n                                writer_dropped,\n                            } => (ready, ready_bytes, writer_dropped),\n                            other => {\n                                l.state = other;\n                                drop(l);\n                                cx.waker().wake_by_ref();\n                                return Poll::Pending;\n                            }\n                        };\n                    match l.waker.as_mut() {",
  note="check and registration in two critical sections; data published in between is not noticed")
m("is_end_stream_true_while_error_pending", ["C11", "C12"], "src/chunker.rs",
  "            SharedState::Err(_) => false,", "            SharedState::Err(_) => true,")
m("abort_leaves_writer_alive", ["C11"], "src/gzip.rs",
  "        match mem::replace(&mut self.0, Inner::Dead) {\n            Inner::Dead => (),\n            Inner::Raw(ref mut w) => w.abort(error),\n            Inner::Gzipped(ref mut g) => g.get_mut().abort(error),\n        };",
  "        match &mut self.0 {\n            Inner::Dead => (),\n            Inner::Raw(w) => w.abort(error),\n            Inner::Gzipped(g) => g.get_mut().abort(error),\n        };")
m("reader_drop_does_not_mark_state", ["C11"], "src/chunker.rs",
  "            let old_state = std::mem::replace(&mut l.state, SharedState::ReaderFused);\n", "            let old_state = ();\n", note="the repaired pinned-tree defect coming back")
m("abort_keeps_queue", ["C11"], "src/chunker.rs",
  "            l.state = SharedState::Err(error);\n            waker = l.waker.take();", "            let _ = error;\n            waker = l.waker.take();",
  note="abort drops the queue but forgets to record the error: the body then ends cleanly")
m("size_hint_upper_without_writer_drop", ["C12"], "src/chunker.rs",
  "            if *writer_dropped {\n                h.set_upper(r);", "            if *writer_dropped || r > 0 {\n                h.set_upper(r);")
m("is_end_stream_ignores_queue", ["C12"], "src/chunker.rs",
  "            } => ready_bytes == 0 && writer_dropped,", "            } => writer_dropped,")

# ---------------------------------------------------------------- file.rs / platform.rs / dir.rs
m("read_at_eof_returns_empty", ["C18"], "src/platform.rs",
  "        if bytes_read == 0 {\n            return Err(", "        if bytes_read == 0 && offset < 0 {\n            return Err(", note="the 0.3.6 infinite loop on truncation")
m("set_len_to_requested_size", ["C18"], "src/platform.rs",
  "            chunk.set_len(bytes_read);", "            chunk.set_len(chunk_size);", note="uninitialised bytes on a short read")
m("etag_without_nanoseconds", ["C18"], "src/file.rs",
  "            HEX_U64_LEN * 3 + HEX_U32_LEN + 5,\n            \"\\\"{:x}:{:x}:{:x}:{:x}\\\"\",\n            self.inner.inode,\n            self.inner.len,\n            dur.as_secs(),\n            dur.subsec_nanos()\n",
  "            HEX_U64_LEN * 3 + HEX_U32_LEN + 5,\n            \"\\\"{:x}:{:x}:{:x}\\\"\",\n            self.inner.inode,\n            self.inner.len,\n            dur.as_secs()\n")
m("etag_without_inode", ["C18"], "src/file.rs",
  "            \"\\\"{:x}:{:x}:{:x}:{:x}\\\"\",\n            self.inner.inode,\n            self.inner.len,", "            \"\\\"{:x}:{:x}:{:x}:{:x}\\\"\",\n            0u64,\n            self.inner.len,")
m("only_directories_refused", ["C18"], "src/file.rs",
  "        if !metadata.is_file() {", "        if metadata.is_dir() {")
m("file_chunk_offset_not_advanced_on_short_read", ["C18"], "src/file.rs",
  "                                (left.start + bytes_read as u64..left.end, inner),", "                                (left.start + chunk_size as u64..left.end, inner),",
  note="only visible when a read returns fewer bytes than requested (read-cap hook / Miri)")
m("dotdot_checked_in_first_segment_only", ["C19"], "src/dir.rs",
  "            Some(n) => left = &left[n + 1..],", "            Some(_) => break,")
m("nul_check_removed", ["C19"], "src/dir.rs",
  "    if memchr::memchr(0, path.as_bytes()).is_some() {\n        return Err(\"path contains NUL byte\");\n    }\n    if path.as_bytes().first()", "    if path.as_bytes().first()")
m("gz_directory_accepted", ["C19"], "src/dir.rs",
  "                        if !metadata.is_dir() {", "                        if metadata.is_dir() || !metadata.is_dir() {")
m("gz_probe_enametoolong_returned", ["C19"], "src/dir.rs",
  "                    Err(ref e) if e.raw_os_error() == Some(libc::ENAMETOOLONG) => {}\n", "", note="reverts fix 8c7d11e")
m("vary_only_when_gzipped", ["C19"], "src/dir.rs",
  "        if self.auto_gzip {\n            hdrs.insert(header::VARY", "        if self.is_gzipped {\n            hdrs.insert(header::VARY")
m("gz_lookup_ignores_auto_gzip", ["C19"], "src/dir.rs",
  "let should_gzip = self.auto_gzip && super::should_gzip(req_hdrs);", "let should_gzip = super::should_gzip(req_hdrs);")
m("absolute_check_removed", ["C19"], "src/dir.rs",
  "    if path.as_bytes().first() == Some(&b'/') {\n        return Err(\"path is absolute\");\n    }\n", "")

m("exactlen_counts_first_segment_only", ["C02", "C07"], "src/body.rs",
  "                let d_len = crate::as_u64(d.remaining());", "                let d_len = crate::as_u64(d.chunk().len());",
  note="only visible with a non-contiguous Entity::Data type (harness SegBuf); the body of an honest entity fails with an error - C02's subject (complete byte sequence), not C01's, which only speaks of bodies that end cleanly")
m("multipart_counts_first_segment_only", ["C12"], "src/serving.rs",
  "                        this.remaining -= crate::as_u64(d.remaining());", "                        this.remaining -= crate::as_u64(d.chunk().len());",
  note="only visible with a non-contiguous Entity::Data type")
