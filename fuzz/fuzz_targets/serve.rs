#![no_main]
//! libFuzzer target for C13: the fuzz bytes are decoded (by hand) into a request + entity shape,
//! `serve` runs under the same monitors as the native workload, and the C13 judge decides. A
//! violation aborts the process so that libFuzzer writes a crash artifact, which ./check replays
//! natively (`hsv C13 --fuzz-artifact FILE`) before believing it.
use libfuzzer_sys::fuzz_target;

fuzz_target!(|data: &[u8]| {
    if let Some(msg) = hsv::fuzzdec::fuzz_serve(data) {
        eprintln!("C13 violation: {}", msg);
        std::process::abort();
    }
});
