#![no_main]
//! libFuzzer target for C16: raw bytes as an Accept-Encoding value, judged by the C16 oracle.
use libfuzzer_sys::fuzz_target;

fuzz_target!(|data: &[u8]| {
    if let Some(msg) = hsv::fuzzdec::fuzz_should_gzip(data) {
        eprintln!("C16 violation: {}", msg);
        std::process::abort();
    }
});
